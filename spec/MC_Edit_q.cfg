SPECIFICATION Spec
INVARIANT AllOK
VIEW McView
CHECK_DEADLOCK FALSE
CONSTANTS
  Sizes <- EditSizes
  Limits <- Lim0
  Fills <- EditFills
  Alphabet <- EditAlphabet
  Resizes <- NoResize
  MaxDepth = 3
  Emit = TRUE
  CheckDump = FALSE
  ExcuseKnown = TRUE
