------------------------------- MODULE Parser -------------------------------
(* parser.rs: Paul Williams' DEC-compatible parser with avt's deviations.      *)
(*                                                                            *)
(*   Pars = [state |-> STRING, params |-> Seq(Seq(0..65535)), inter |-> -1|cp] *)
(* `params` is the LIVE prefix of the 32 x 6 array: params[0..=cur_param],     *)
(* each with parts[0..=cur_part]; cur_param = Len(params) - 1.  Everything     *)
(* beyond the live prefix is zero in the implementation (the harness logs that *)
(* as the observation `clean`, and Trace.tla requires it) - which is what makes *)
(* the implementation's lazy `clear` equivalent to this abstract one.          *)
(*                                                                            *)
(* Functions are [f |-> name, a |-> <<args>>]; None is [f |-> "None"].         *)
(* Named deviations from Williams: ColonSubParams, BelEndsOsc,                 *)
(* C1AreCodePoints, HighIsFinal, LastIntermediateWins, ParamTruncation.        *)
EXTENDS Base

PARAMS_LEN == 32
PARTS_LEN == 6

States == {"Ground", "Escape", "EscapeIntermediate", "CsiEntry", "CsiParam", "CsiIntermediate",
           "CsiIgnore", "DcsEntry", "DcsParam", "DcsIntermediate", "DcsPassthrough", "DcsIgnore",
           "OscString", "SosPmApcString"}

InitP == [state |-> "Ground", params |-> <<<<0>>>>, inter |-> -1]

None == [f |-> "None", a |-> <<>>]
F0(name) == [f |-> name, a |-> <<>>]
F1(name, x) == [f |-> name, a |-> <<x>>]
F2(name, x, y) == [f |-> name, a |-> <<x, y>>]
FS(name, s) == [f |-> name, a |-> s]

\* ------------------------------------------------------------------ actions
Clear(p) == [p EXCEPT !.params = <<<<0>>>>, !.inter = -1]
Collect(p, c) == [p EXCEPT !.inter = c]                       \* LastIntermediateWins: one slot
To(p, st) == [p EXCEPT !.state = st]
Param(p, c) ==
  LET n == Len(p.params) IN
  IF c = 59 THEN (IF n < PARAMS_LEN THEN [p EXCEPT !.params = Append(@, <<0>>)] ELSE p)   \* saturates at 32
  ELSE IF c = 58                                                                           \* ColonSubParams
       THEN (IF Len(p.params[n]) < PARTS_LEN THEN [p EXCEPT !.params[n] = Append(@, 0)] ELSE p)
  ELSE LET k == Len(p.params[n]) IN
       [p EXCEPT !.params[n][k] = (10 * @ + (c - 48)) % 65536]                             \* ParamTruncation

Execute(c) ==
  CASE c = 8 -> F0("Bs") [] c = 9 -> F0("Ht") [] c \in {10, 11, 12, 132} -> F0("Lf")
    [] c = 13 -> F0("Cr") [] c = 14 -> F0("So") [] c = 15 -> F0("Si")
    [] c = 133 -> F0("Nel") [] c = 136 -> F0("Hts") [] c = 141 -> F0("Ri") [] OTHER -> None

EscDispatch(p, c) ==
  CASE p.inter = -1 /\ c \in 64..95 -> Execute(c + 64)
    [] p.inter = -1 /\ c = 55 -> F0("Decsc")
    [] p.inter = -1 /\ c = 56 -> F0("Decrc")
    [] p.inter = -1 /\ c = 99 -> F0("Ris")
    [] p.inter = 35 /\ c = 56 -> F0("Decaln")
    [] p.inter = 40 -> F1("Gzd4", IF c = 48 THEN 1 ELSE 0)
    [] p.inter = 41 -> F1("G1d4", IF c = 48 THEN 1 ELSE 0)
    [] OTHER -> None

\* ---------------------------------------------------------------------- SGR
(* SgrOps::next.  ps = live params; i = first unconsumed (1-based).            *)
RECURSIVE Sgr(_, _)
Sgr(ps, i) ==
  IF i > Len(ps) THEN <<>>
  ELSE LET q == ps[i]  n == q[1]  one == Len(q) = 1
           Ext(code) ==
             IF i + 1 > Len(ps) THEN Sgr(ps, i + 1)
             ELSE LET nx == ps[i + 1] IN
                  IF nx = <<2>> THEN IF i + 4 <= Len(ps)
                       THEN <<<<code, Rgb(ps[i+2][1], ps[i+3][1], ps[i+4][1])>>>> \o Sgr(ps, i + 5)
                       ELSE Sgr(ps, i + 2)
                  ELSE IF nx = <<5>> THEN IF i + 2 <= Len(ps)
                       THEN <<<<code, ps[i+2][1] % 256>>>> \o Sgr(ps, i + 3)
                       ELSE Sgr(ps, i + 2)
                  ELSE Sgr(ps, i + 1)
       IN CASE one /\ n \in {0,1,2,3,4,5,7,9,23,24,25,27,29,39,49} -> <<<<n, 0>>>> \o Sgr(ps, i + 1)
            [] one /\ n \in {21, 22}   -> <<<<22, 0>>>> \o Sgr(ps, i + 1)
            [] one /\ n \in 30..37     -> <<<<38, n - 30>>>> \o Sgr(ps, i + 1)
            [] one /\ n \in 40..47     -> <<<<48, n - 40>>>> \o Sgr(ps, i + 1)
            [] one /\ n \in 90..97     -> <<<<38, n - 82>>>> \o Sgr(ps, i + 1)
            [] one /\ n \in 100..107   -> <<<<48, n - 92>>>> \o Sgr(ps, i + 1)
            [] n \in {38, 48} /\ Len(q) = 5 /\ q[2] = 2 -> <<<<n, Rgb(q[3], q[4], q[5])>>>> \o Sgr(ps, i + 1)
            [] n \in {38, 48} /\ Len(q) = 6 /\ q[2] = 2 -> <<<<n, Rgb(q[4], q[5], q[6])>>>> \o Sgr(ps, i + 1)
            [] n \in {38, 48} /\ Len(q) = 3 /\ q[2] = 5 -> <<<<n, q[3] % 256>>>> \o Sgr(ps, i + 1)
            [] one /\ n \in {38, 48}   -> Ext(n)
            [] OTHER                   -> Sgr(ps, i + 1)     \* unknown or malformed: skip this parameter only

AnsiModes(ps) == SelectSeq([i \in 1..Len(ps) |-> ps[i][1]], LAMBDA m : m \in {4, 20})
DecModes(ps) ==
  LET ms == SelectSeq([i \in 1..Len(ps) |-> ps[i][1]], LAMBDA m : m \in {1, 6, 7, 25, 47, 1047, 1048, 1049})
  IN [i \in 1..Len(ms) |-> IF ms[i] = 47 THEN 1047 ELSE ms[i]]

(* csi_dispatch.  A(k) = params[k].as_u16(), 0 when the parameter is absent.   *)
CsiDispatch(p, c) ==
  LET A(k) == IF k <= Len(p.params) THEN p.params[k][1] ELSE 0
      i == p.inter
  IN
  IF i = -1 THEN
    CASE c = 64 -> F1("Ich", A(1))  [] c = 65 -> F1("Cuu", A(1))  [] c = 66 -> F1("Cud", A(1))
      [] c = 67 -> F1("Cuf", A(1))  [] c = 68 -> F1("Cub", A(1))  [] c = 69 -> F1("Cnl", A(1))
      [] c = 70 -> F1("Cpl", A(1))  [] c = 71 -> F1("Cha", A(1))  [] c = 72 -> F2("Cup", A(1), A(2))
      [] c = 73 -> F1("Cht", A(1))
      [] c = 74 -> (IF A(1) \in 0..3 THEN F1("Ed", A(1)) ELSE None)
      [] c = 75 -> (IF A(1) \in 0..2 THEN F1("El", A(1)) ELSE None)
      [] c = 76 -> F1("Il", A(1))   [] c = 77 -> F1("Dl", A(1))   [] c = 80 -> F1("Dch", A(1))
      [] c = 83 -> F1("Su", A(1))   [] c = 84 -> F1("Sd", A(1))
      [] c = 87 -> (IF A(1) \in {0, 2, 5} THEN F1("Ctc", A(1)) ELSE None)
      [] c = 88 -> F1("Ech", A(1))  [] c = 90 -> F1("Cbt", A(1))  [] c = 96 -> F1("Cha", A(1))
      [] c = 97 -> F1("Cuf", A(1))  [] c = 98 -> F1("Rep", A(1))  [] c = 100 -> F1("Vpa", A(1))
      [] c = 101 -> F1("Vpr", A(1)) [] c = 102 -> F2("Cup", A(1), A(2))
      [] c = 103 -> (IF A(1) \in {0, 3} THEN F1("Tbc", A(1)) ELSE None)
      [] c = 104 -> FS("Sm", AnsiModes(p.params))
      [] c = 108 -> FS("Rm", AnsiModes(p.params))
      [] c = 109 -> FS("Sgr", Sgr(p.params, 1))
      [] c = 114 -> F2("Decstbm", A(1), A(2))
      [] c = 115 -> F0("Scosc")
      [] c = 116 -> (IF A(1) = 8 THEN F2("Xtwinops", A(3), A(2)) ELSE None)     \* <<cols, rows>>
      [] c = 117 -> F0("Scorc")
      [] OTHER -> None
  ELSE IF i = 33 /\ c = 112 THEN F0("Decstr")
  ELSE IF i = 63 /\ c = 104 THEN FS("Decset", DecModes(p.params))
  ELSE IF i = 63 /\ c = 108 THEN FS("Decrst", DecModes(p.params))
  ELSE None

\* ---------------------------------------------------------------- the table
IsC0(x) == x \in 0..23 \/ x = 25 \/ x \in 28..31      \* C0 minus CAN, SUB, ESC
R(p, out) == [p |-> p, out |-> out]

(* Parser::feed.  c2 routes (HighIsFinal: everything >= 0xA0 is routed as 'A'), *)
(* the original c is what the actions receive.  "Anywhere" transitions first.  *)
Step(p, c) ==
  LET c2 == IF c >= 160 THEN 65 ELSE c  st == p.state IN
  IF st = "Ground" /\ c2 \in 32..127 THEN R(p, F1("Print", c))
  ELSE IF st = "CsiParam" /\ c2 \in 48..59 THEN R(Param(p, c), None)
  ELSE IF c2 = 27 THEN R(Clear(To(p, "Escape")), None)
  ELSE IF c2 \in {24, 26} \/ c2 \in 128..143 \/ c2 \in 145..151 \/ c2 \in {153, 154}      \* C1AreCodePoints
       THEN R(To(p, "Ground"), Execute(c))
  ELSE IF c2 \in {152, 158, 159} THEN R(To(p, "SosPmApcString"), None)
  ELSE IF c2 = 156 THEN R(To(p, "Ground"), None)
  ELSE IF c2 = 157 THEN R(To(p, "OscString"), None)
  ELSE IF c2 = 144 THEN R(Clear(To(p, "DcsEntry")), None)
  ELSE IF c2 = 155 THEN R(Clear(To(p, "CsiEntry")), None)
  ELSE
   CASE st = "Ground" -> IF IsC0(c2) THEN R(p, Execute(c)) ELSE R(p, None)
    [] st = "Escape" -> IF IsC0(c2) THEN R(p, Execute(c))
         ELSE IF c2 \in 32..47 THEN R(Collect(To(p, "EscapeIntermediate"), c), None)
         ELSE IF c2 = 80 THEN R(Clear(To(p, "DcsEntry")), None)
         ELSE IF c2 \in {88, 94, 95} THEN R(To(p, "SosPmApcString"), None)
         ELSE IF c2 = 91 THEN R(Clear(To(p, "CsiEntry")), None)
         ELSE IF c2 = 93 THEN R(To(p, "OscString"), None)
         ELSE IF c2 \in 48..126 THEN R(To(p, "Ground"), EscDispatch(p, c)) ELSE R(p, None)
    [] st = "EscapeIntermediate" -> IF IsC0(c2) THEN R(p, Execute(c))
         ELSE IF c2 \in 32..47 THEN R(Collect(p, c), None)
         ELSE IF c2 \in 48..126 THEN R(To(p, "Ground"), EscDispatch(p, c)) ELSE R(p, None)
    [] st = "CsiEntry" -> IF IsC0(c2) THEN R(p, Execute(c))
         ELSE IF c2 \in 32..47 THEN R(Collect(To(p, "CsiIntermediate"), c), None)
         ELSE IF c2 \in 48..57 \/ c2 = 59 THEN R(Param(To(p, "CsiParam"), c), None)
         ELSE IF c2 = 58 THEN R(To(p, "CsiIgnore"), None)
         ELSE IF c2 \in 60..63 THEN R(Collect(To(p, "CsiParam"), c), None)
         ELSE IF c2 \in 64..126 THEN R(To(p, "Ground"), CsiDispatch(p, c)) ELSE R(p, None)
    [] st = "CsiParam" -> IF IsC0(c2) THEN R(p, Execute(c))
         ELSE IF c2 \in 60..63 THEN R(To(p, "CsiIgnore"), None)
         ELSE IF c2 \in 32..47 THEN R(Collect(To(p, "CsiIntermediate"), c), None)
         ELSE IF c2 \in 64..126 THEN R(To(p, "Ground"), CsiDispatch(p, c)) ELSE R(p, None)
    [] st = "CsiIntermediate" -> IF IsC0(c2) THEN R(p, Execute(c))
         ELSE IF c2 \in 32..47 THEN R(Collect(p, c), None)
         ELSE IF c2 \in 48..63 THEN R(To(p, "CsiIgnore"), None)
         ELSE IF c2 \in 64..126 THEN R(To(p, "Ground"), CsiDispatch(p, c)) ELSE R(p, None)
    [] st = "CsiIgnore" -> IF IsC0(c2) THEN R(p, Execute(c))
         ELSE IF c2 \in 64..126 THEN R(To(p, "Ground"), None) ELSE R(p, None)
    [] st = "DcsEntry" -> IF c2 \in 32..47 THEN R(Collect(To(p, "DcsIntermediate"), c), None)
         ELSE IF c2 \in 48..57 \/ c2 = 59 THEN R(Param(To(p, "DcsParam"), c), None)
         ELSE IF c2 = 58 THEN R(To(p, "DcsIgnore"), None)
         ELSE IF c2 \in 60..63 THEN R(Collect(To(p, "DcsParam"), c), None)
         ELSE IF c2 \in 64..126 THEN R(To(p, "DcsPassthrough"), None) ELSE R(p, None)
    [] st = "DcsParam" -> IF c2 \in 48..57 \/ c2 = 59 THEN R(Param(p, c), None)
         ELSE IF c2 = 58 \/ c2 \in 60..63 THEN R(To(p, "DcsIgnore"), None)
         ELSE IF c2 \in 32..47 THEN R(Collect(To(p, "DcsIntermediate"), c), None)
         ELSE IF c2 \in 64..126 THEN R(To(p, "DcsPassthrough"), None) ELSE R(p, None)
    [] st = "DcsIntermediate" -> IF c2 \in 32..47 THEN R(Collect(p, c), None)
         ELSE IF c2 \in 48..63 THEN R(To(p, "DcsIgnore"), None)
         ELSE IF c2 \in 64..126 THEN R(To(p, "DcsPassthrough"), None) ELSE R(p, None)
    [] st = "OscString" -> IF c2 = 7 THEN R(To(p, "Ground"), None) ELSE R(p, None)          \* BelEndsOsc
    [] OTHER -> R(p, None)                      \* DcsPassthrough, DcsIgnore, SosPmApcString: swallow

(* The action kind of a step, for the table-agreement property of C03.          *)
ActionKind(p, c) ==
  LET r == Step(p, c) IN
  IF r.out.f = "Print" THEN "print"
  ELSE IF r.out # None THEN (IF p.state \in {"Ground"} \/ c < 32 \/ c \in 128..159 THEN "execute" ELSE "dispatch")
  ELSE "ignore"

\* ---------------------------------------------------------- Parser::dump
RECURSIVE DecimalDigits(_)
DecimalDigits(n) == IF n < 10 THEN <<48 + n>> ELSE Append(DecimalDigits(n \div 10), 48 + (n % 10))
JoinWith(seqs, sep) ==
  FoldLeft(LAMBDA acc, k : IF k = 1 THEN seqs[k] ELSE acc \o <<sep>> \o seqs[k], <<>>, Iota(Len(seqs)))
ParamText(q) == JoinWith([k \in 1..Len(q) |-> DecimalDigits(q[k])], 58)
ParamsText(ps) == JoinWith([k \in 1..Len(ps) |-> ParamText(ps[k])], 59)
Inter(p) == IF p.inter = -1 THEN <<>> ELSE <<p.inter>>
ParserDump(p) ==
  CASE p.state = "Ground" -> <<>>
    [] p.state = "Escape" -> <<27>>
    [] p.state = "EscapeIntermediate" -> <<27>> \o Inter(p)
    [] p.state = "CsiEntry" -> <<155>>
    [] p.state = "CsiParam" -> <<155>> \o Inter(p) \o ParamsText(p.params)
    [] p.state = "CsiIntermediate" -> <<155>> \o Inter(p)
    [] p.state = "CsiIgnore" -> <<155, 58>>
    [] p.state = "DcsEntry" -> <<144>>
    [] p.state = "DcsIntermediate" -> <<144>> \o Inter(p)
    [] p.state = "DcsParam" -> <<144>> \o Inter(p) \o ParamsText(p.params)
    [] p.state = "DcsPassthrough" -> <<144>> \o Inter(p) \o <<64>>
    [] p.state = "DcsIgnore" -> <<144, 58>>
    [] p.state = "OscString" -> <<157>>
    [] p.state = "SosPmApcString" -> <<152>>
=============================================================================
