SPECIFICATION Spec
INVARIANT AllOK
VIEW McView
CHECK_DEADLOCK FALSE
CONSTANTS
  Sizes <- TabsSizes
  Limits <- Lim0
  Fills <- NoFill
  Alphabet <- TabsAlphabet
  Resizes <- TabsResizes
  MaxDepth = 4
  Emit = TRUE
  CheckDump = FALSE
  ExcuseKnown = TRUE
