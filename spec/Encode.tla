------------------------------- MODULE Encode -------------------------------
(* A canonical character sequence for each Function value, so that function-   *)
(* level models can be driven through the character-level public API           *)
(* (feed_str) of both the specification and the real code.                     *)
(* Lemma (checked by TLC in MC.tla for every token used):                      *)
(*   parser in Ground => Functions(p, Enc(fn)) = <<fn>>   (EncRoundTrip)        *)
EXTENDS Vt

Digits(n) == DecimalDigits(n)
Num(n) == IF n = 0 THEN <<>> ELSE Digits(n)            \* 0 = "omitted": as_usize turns both into the default
CSI7 == <<27, 91>>
Csi1(n, fin) == CSI7 \o Num(n) \o <<fin>>
Csi2(a, b, fin) == CSI7 \o Num(a) \o <<59>> \o Num(b) \o <<fin>>
ModeList(ms) == JoinWith([i \in 1..Len(ms) |-> Digits(ms[i])], 59)

(* SGR ops back to parameters (one canonical spelling per op)                   *)
SgrParam(op) ==
  LET k == op[1] v == op[2] IN
  IF k \in {38, 48} THEN
     (IF v < 256 THEN Digits(k) \o <<59, 53, 59>> \o Digits(v)                                  \* 38;5;n
      ELSE LET x == v - 256 IN Digits(k) \o <<58, 50, 58>> \o Digits(x \div 65536) \o <<58>>     \* 38:2:r:g:b
                                \o Digits((x \div 256) % 256) \o <<58>> \o Digits(x % 256))
  ELSE Digits(k)

Enc(fn) ==
  LET f == fn.f  a == fn.a IN
  CASE f = "Raw" -> a                          \* not a function: a literal piece of input (cuts inside sequences)
    [] f = "Print" -> <<a[1]>>
    [] f = "Bs" -> <<8>> [] f = "Ht" -> <<9>> [] f = "Lf" -> <<10>> [] f = "Cr" -> <<13>>
    [] f = "So" -> <<14>> [] f = "Si" -> <<15>>
    [] f = "Nel" -> <<27, 69>> [] f = "Hts" -> <<27, 72>> [] f = "Ri" -> <<27, 77>>
    [] f = "Decsc" -> <<27, 55>> [] f = "Decrc" -> <<27, 56>> [] f = "Ris" -> <<27, 99>>
    [] f = "Decaln" -> <<27, 35, 56>>
    [] f = "Gzd4" -> <<27, 40, IF a[1] = 1 THEN 48 ELSE 66>>
    [] f = "G1d4" -> <<27, 41, IF a[1] = 1 THEN 48 ELSE 66>>
    [] f = "Ich" -> Csi1(a[1], 64) [] f = "Cuu" -> Csi1(a[1], 65) [] f = "Cud" -> Csi1(a[1], 66)
    [] f = "Cuf" -> Csi1(a[1], 67) [] f = "Cub" -> Csi1(a[1], 68) [] f = "Cnl" -> Csi1(a[1], 69)
    [] f = "Cpl" -> Csi1(a[1], 70) [] f = "Cha" -> Csi1(a[1], 71) [] f = "Cup" -> Csi2(a[1], a[2], 72)
    [] f = "Cht" -> Csi1(a[1], 73) [] f = "Ed" -> Csi1(a[1], 74) [] f = "El" -> Csi1(a[1], 75)
    [] f = "Il" -> Csi1(a[1], 76) [] f = "Dl" -> Csi1(a[1], 77) [] f = "Dch" -> Csi1(a[1], 80)
    [] f = "Su" -> Csi1(a[1], 83) [] f = "Sd" -> Csi1(a[1], 84) [] f = "Ctc" -> Csi1(a[1], 87)
    [] f = "Ech" -> Csi1(a[1], 88) [] f = "Cbt" -> Csi1(a[1], 90) [] f = "Rep" -> Csi1(a[1], 98)
    [] f = "Vpa" -> Csi1(a[1], 100) [] f = "Vpr" -> Csi1(a[1], 101) [] f = "Tbc" -> Csi1(a[1], 103)
    [] f = "Decstbm" -> Csi2(a[1], a[2], 114)
    [] f = "Scosc" -> CSI7 \o <<115>> [] f = "Scorc" -> CSI7 \o <<117>>
    [] f = "Decstr" -> CSI7 \o <<33, 112>>
    [] f = "Sm" -> CSI7 \o ModeList(a) \o <<104>>
    [] f = "Rm" -> CSI7 \o ModeList(a) \o <<108>>
    [] f = "Decset" -> CSI7 \o <<63>> \o ModeList(a) \o <<104>>
    [] f = "Decrst" -> CSI7 \o <<63>> \o ModeList(a) \o <<108>>
    [] f = "Sgr" -> CSI7 \o JoinWith([i \in 1..Len(a) |-> SgrParam(a[i])], 59) \o <<109>>

(* the lemma that ties function-level models to the character level             *)
EncRoundTrip(fn) == fn.f = "Raw" \/ Functions(InitP, Enc(fn)) = <<fn>>
=============================================================================
