SPECIFICATION Spec
INVARIANT AllOK
VIEW McView
CHECK_DEADLOCK FALSE
CONSTANTS
  Sizes <- CursorSizesBig
  Limits <- Lim0
  Fills <- NoFill
  Alphabet <- CursorAlphabet
  Resizes <- CursorResizes
  MaxDepth = 3
  Emit = TRUE
  CheckDump = FALSE
  ExcuseKnown = TRUE
