SPECIFICATION Spec
INVARIANT AllOK
VIEW McView
CHECK_DEADLOCK FALSE
CONSTANTS
  Sizes <- Scroll2Sizes
  Limits <- Lim01
  Fills <- Scroll2Fills
  Alphabet <- Scroll2Alphabet
  Resizes <- NoResize
  MaxDepth = 3
  Emit = TRUE
  CheckDump = FALSE
  ExcuseKnown = TRUE
