-------------------------------- MODULE Base --------------------------------
(* Shared vocabulary of the avt specification: checked arithmetic, character  *)
(* classes (charset.rs, Rust's char::is_whitespace), pens (pen.rs, color.rs), *)
(* cells (cell.rs) and single lines (line.rs).                                *)
(*                                                                            *)
(* Value shapes are exactly the JSON shapes written by the conformance        *)
(* harness, so that a logged state can be compared with `=`:                  *)
(*   Pen  = <<fg, bg, intensity, attrs>>   fg/bg: -1 none | 0..255 indexed |  *)
(*          256 + rgb24;  intensity: 0 normal 1 bold 2 faint;                 *)
(*          attrs: bit 1 italic, 2 underline, 4 strikethrough, 8 blink,       *)
(*          16 inverse (the harness builds this from the PUBLIC accessors)    *)
(*   Cell = <<code point, Pen>>                                               *)
(*   Line = [c |-> Seq(Cell), w |-> BOOLEAN]   (w = soft-wrap mark)           *)
EXTENDS Naturals, Integers, Sequences, SequencesExt, Functions, TLC

Min2(a, b) == IF a < b THEN a ELSE b
Max2(a, b) == IF a > b THEN a ELSE b

(* usize subtraction: an underflow in the design is an error, not a value.    *)
Sub(a, b) == IF a >= b THEN a - b ELSE Assert(FALSE, <<"usize underflow", a, b>>)

Rep(x, n) == [i \in 1..n |-> x]
Iota(n) == [i \in 1..n |-> i]            \* <<1, ..., n>>
Iota0(n) == [i \in 1..n |-> i - 1]       \* <<0, ..., n-1>>
Last1(s) == s[Len(s)]
TailFrom(s, k) == SubSeq(s, k, Len(s))   \* s[k..]
LastN(s, n) == SubSeq(s, Len(s) - n + 1, Len(s))

\* ---------------------------------------------------------------- characters
(* Rust's char::is_whitespace = Unicode White_Space.                           *)
IsWhitespace(c) ==
  \/ c \in 9..13 \/ c = 32 \/ c = 133 \/ c = 160 \/ c = 5760
  \/ c \in 8192..8202 \/ c \in {8232, 8233, 8239, 8287, 12288}

(* charset.rs: DEC special graphics, 0x60..0x7E                               *)
SpecialGfx == <<9830, 9618, 9225, 9228, 9229, 9226, 176, 177, 9252, 9227,
                9496, 9488, 9484, 9492, 9532, 9146, 9147, 9472, 9148, 9149,
                9500, 9508, 9524, 9516, 9474, 8804, 8805, 960, 8800, 163, 8901>>
Translate(drawing, c) == IF drawing = 1 /\ c >= 96 /\ c < 127 THEN SpecialGfx[c - 95] ELSE c

\* ----------------------------------------------------------------------- pens
DefaultPen == <<-1, -1, 0, 0>>
PFg(p) == p[1]
PBg(p) == p[2]
PInt(p) == p[3]
PAttrs(p) == p[4]
ITALIC == 1
UNDERLINE == 2
STRIKE == 4
BLINK == 8
INVERSE == 16
HasBit(a, m) == ((a \div m) % 2) = 1
SetBit(a, m) == IF HasBit(a, m) THEN a ELSE a + m
ClrBit(a, m) == IF HasBit(a, m) THEN a - m ELSE a
Rgb(r, g, b) == 256 + (r % 256) * 65536 + (g % 256) * 256 + (b % 256)

(* One decoded SGR operation <<code, value>>; codes are the canonical SGR     *)
(* numbers (22 stands for 21|22, 38/48 carry a colour).                        *)
ApplySgrOp(p, op) ==
  LET k == op[1] v == op[2] IN
  CASE k = 0  -> DefaultPen
    [] k = 1  -> <<p[1], p[2], 1, p[4]>>
    [] k = 2  -> <<p[1], p[2], 2, p[4]>>
    [] k = 22 -> <<p[1], p[2], 0, p[4]>>
    [] k = 3  -> <<p[1], p[2], p[3], SetBit(p[4], ITALIC)>>
    [] k = 4  -> <<p[1], p[2], p[3], SetBit(p[4], UNDERLINE)>>
    [] k = 5  -> <<p[1], p[2], p[3], SetBit(p[4], BLINK)>>
    [] k = 7  -> <<p[1], p[2], p[3], SetBit(p[4], INVERSE)>>
    [] k = 9  -> <<p[1], p[2], p[3], SetBit(p[4], STRIKE)>>
    [] k = 23 -> <<p[1], p[2], p[3], ClrBit(p[4], ITALIC)>>
    [] k = 24 -> <<p[1], p[2], p[3], ClrBit(p[4], UNDERLINE)>>
    [] k = 25 -> <<p[1], p[2], p[3], ClrBit(p[4], BLINK)>>
    [] k = 27 -> <<p[1], p[2], p[3], ClrBit(p[4], INVERSE)>>
    [] k = 29 -> <<p[1], p[2], p[3], ClrBit(p[4], STRIKE)>>
    [] k = 38 -> <<v, p[2], p[3], p[4]>>
    [] k = 39 -> <<-1, p[2], p[3], p[4]>>
    [] k = 48 -> <<p[1], v, p[3], p[4]>>
    [] k = 49 -> <<p[1], -1, p[3], p[4]>>
    [] OTHER  -> Assert(FALSE, <<"unknown SGR op", op>>)
ApplySgr(p, ops) == FoldLeft(ApplySgrOp, p, ops)

\* ---------------------------------------------------------------------- cells
MkCell(c, pen) == <<c, pen>>
CCh(cell) == cell[1]
CPen(cell) == cell[2]
BlankCell(pen) == <<32, pen>>
DefCell == <<32, DefaultPen>>
IsDefault(cell) == cell[1] = 32 /\ cell[2] = DefaultPen

\* ---------------------------------------------------------------------- lines
BlankLine(cols, pen) == [c |-> Rep(BlankCell(pen), cols), w |-> FALSE]
NoLine == [none |-> TRUE]                  \* Option<Line>::None

(* Line::trailers - number of trailing default cells (iterative, no recursion) *)
Trailers(cells) ==
  LET n == Len(cells)
      F(acc, k) == IF acc[2] /\ IsDefault(cells[n - k + 1]) THEN <<acc[1] + 1, TRUE>> ELSE <<acc[1], FALSE>>
  IN FoldLeft(F, <<0, TRUE>>, Iota(n))[1]
TrimCells(cells) == SubSeq(cells, 1, Len(cells) - Trailers(cells))          \* Line::trim
ExpandCells(cells, len) == cells \o Rep(DefCell, Sub(len, Len(cells)))      \* Line::expand (default pen)
LineIsBlank(line) == \A i \in 1..Len(line.c) : IsDefault(line.c[i])         \* Line::is_blank

ClearCells(ln, a, e, pen) ==                                                 \* Line::clear(a..e)
  [ln EXCEPT !.c = [k \in 1..Len(@) |-> IF k - 1 >= a /\ k - 1 < e THEN BlankCell(pen) ELSE @[k]]]
InsCells(cells, col, n, cell) ==                                             \* Line::insert
  [k \in 1..Len(cells) |-> IF k - 1 < col THEN cells[k] ELSE IF k - 1 < col + n THEN cell ELSE cells[k - n]]
DelCells(cells, col, n, pen) ==                                              \* Line::delete
  [k \in 1..Len(cells) |-> IF k - 1 < col THEN cells[k]
                           ELSE IF k - 1 < Len(cells) - n THEN cells[k + n] ELSE BlankCell(pen)]

(* Line::contract -> [line, rest]                                              *)
Contract(line, len) ==
  LET c1 == IF ~line.w THEN SubSeq(line.c, 1, Max2(len, Len(line.c) - Trailers(line.c))) ELSE line.c
  IN IF Len(c1) > len
     THEN LET head == SubSeq(c1, 1, len)
              r0   == SubSeq(c1, len + 1, Len(c1))
              r1   == IF ~line.w THEN TrimCells(r0) ELSE r0
          IN IF r1 = <<>> THEN [line |-> [c |-> head, w |-> line.w], rest |-> NoLine]
             ELSE [line |-> [c |-> head, w |-> TRUE], rest |-> [c |-> r1, w |-> line.w]]
     ELSE [line |-> [c |-> c1, w |-> line.w], rest |-> NoLine]

(* Line::extend -> [line, done, rest]                                          *)
Extend(self, other, len) ==
  LET needed == Sub(len, Len(self.c)) IN
  IF needed = 0 THEN [line |-> self, done |-> TRUE, rest |-> other]
  ELSE IF ~self.w THEN [line |-> [self EXCEPT !.c = ExpandCells(@, len)], done |-> TRUE, rest |-> other]
  ELSE LET oc == IF ~other.w THEN TrimCells(other.c) ELSE other.c IN
       IF needed < Len(oc)
       THEN [line |-> [self EXCEPT !.c = @ \o SubSeq(oc, 1, needed)], done |-> TRUE,
             rest |-> [c |-> SubSeq(oc, needed + 1, Len(oc)), w |-> other.w]]
       ELSE LET joined == self.c \o oc IN
            IF ~other.w
            THEN [line |-> [c |-> IF Len(joined) < len THEN ExpandCells(joined, len) ELSE joined, w |-> FALSE],
                  done |-> TRUE, rest |-> NoLine]
            ELSE [line |-> [c |-> joined, w |-> self.w], done |-> FALSE, rest |-> NoLine]

(* Line::chunks(pred): maximal runs, a new chunk starts where pred(prev, cur)  *)
Chunks(cells, Pred(_, _)) ==
  LET F(acc, k) == IF k > 1 /\ Pred(cells[k - 1], cells[k])
                   THEN Append(acc, <<cells[k]>>)
                   ELSE [acc EXCEPT ![Len(acc)] = Append(@, cells[k])]
  IN IF cells = <<>> THEN <<>> ELSE FoldLeft(F, <<<<>>>>, Iota(Len(cells)))

LineText(line) == [i \in 1..Len(line.c) |-> line.c[i][1]]                    \* Line::text (code points)
TrimEnd(s) ==                                                                \* str::trim_end
  LET n == Len(s)
      F(acc, k) == IF acc[2] /\ IsWhitespace(s[n - k + 1]) THEN <<acc[1] + 1, TRUE>> ELSE <<acc[1], FALSE>>
  IN SubSeq(s, 1, n - FoldLeft(F, <<0, TRUE>>, Iota(n))[1])
=============================================================================
