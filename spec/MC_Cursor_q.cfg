SPECIFICATION Spec
INVARIANT AllOK
VIEW McView
CHECK_DEADLOCK FALSE
CONSTANTS
  Sizes <- CursorSizes
  Limits <- Lim0
  Fills <- NoFill
  Alphabet <- CursorAlphabet
  Resizes <- CursorResizes
  MaxDepth = 2
  Emit = TRUE
  CheckDump = FALSE
  ExcuseKnown = TRUE
