-------------------------------- MODULE Dump --------------------------------
(* Vt::dump(): the 14-step re-creation script of terminal.rs, Buffer::dump,     *)
(* Pen::dump, Color::sgr_params and Parser::dump, as code-point sequences.      *)
(* The TEXT of a dump is not a property (C11 speaks about what it restores to); *)
(* this mirror exists so that (a) TLC can check C11 on the specification itself  *)
(* (MC_Dump: every small state, dump, restore, probe), and (b) a recorded dump   *)
(* that differs from the mirror is reported as drift.  The two behaviours the    *)
(* property list keeps as findings are mirrored as they are:                     *)
(* DumpCursorViaSavedCtx (step 9) and DumpPrimaryWithStaleGeometry (step 1).     *)
EXTENDS Vt

Dec(n) == DecimalDigits(n)
Cat(seqs) == FoldLeft(LAMBDA acc, s : acc \o s, <<>>, seqs)
CSI8 == <<155>>

(* Color::sgr_params(base)                                                       *)
ColorParams(c, base) ==
  IF c < 8 THEN Dec(base + c)
  ELSE IF c < 16 THEN Dec(base + 52 + c)
  ELSE IF c < 256 THEN Dec(base + 8) \o <<58, 53, 58>> \o Dec(c)
  ELSE LET x == c - 256 IN
       Dec(base + 8) \o <<58, 50, 58>> \o Dec(x \div 65536) \o <<58>> \o Dec((x \div 256) % 256) \o <<58>> \o Dec(x % 256)

(* Pen::dump                                                                     *)
PenDump(p) ==
  <<27, 91, 48>>
  \o (IF p[1] >= 0 THEN <<59>> \o ColorParams(p[1], 30) ELSE <<>>)
  \o (IF p[2] >= 0 THEN <<59>> \o ColorParams(p[2], 40) ELSE <<>>)
  \o (IF p[3] = 1 THEN <<59, 49>> ELSE IF p[3] = 2 THEN <<59, 50>> ELSE <<>>)
  \o (IF HasBit(p[4], ITALIC) THEN <<59, 51>> ELSE <<>>)
  \o (IF HasBit(p[4], UNDERLINE) THEN <<59, 52>> ELSE <<>>)
  \o (IF HasBit(p[4], BLINK) THEN <<59, 53>> ELSE <<>>)
  \o (IF HasBit(p[4], INVERSE) THEN <<59, 55>> ELSE <<>>)
  \o (IF HasBit(p[4], STRIKE) THEN <<59, 57>> ELSE <<>>)
  \o <<109>>

(* Buffer::rep_encode_cell_text: runs longer than 5 become  ch CSI (n-1) b       *)
RunOut(ch, count) == IF count > 5 THEN <<ch, 27, 91>> \o Dec(count - 1) \o <<98>> ELSE Rep(ch, count)
RepEncode(cells) ==
  LET F(acc, k) == IF cells[k][1] = acc.prev THEN [acc EXCEPT !.count = @ + 1]
                   ELSE [out |-> acc.out \o RunOut(acc.prev, acc.count), prev |-> cells[k][1], count |-> 1]
      r == FoldLeft(F, [out |-> <<>>, prev |-> cells[1][1], count |-> 1], [k \in 1..(Len(cells) - 1) |-> k + 1])
  IN r.out \o RunOut(r.prev, r.count)

(* Buffer::dump                                                                  *)
BufDump(b) ==
  LET view == View(b)
      n == Len(view)
      F(acc, i) == [cutoff |-> IF acc.wrapped \/ view[i].w \/ ~LineIsBlank(view[i]) THEN i ELSE acc.cutoff,
                    wrapped |-> view[i].w]
      cutoff == FoldLeft(F, [cutoff |-> 0, wrapped |-> FALSE], Iota(n)).cutoff
      LineOut(acc, i) ==
        LET chunks == Chunks(view[i].c, LAMBDA c1, c2 : c1[2] # c2[2])
            G(a2, k) == LET cp == chunks[k][1][2] IN
                        [out |-> a2.out \o (IF cp # a2.pen THEN PenDump(cp) ELSE <<>>) \o RepEncode(chunks[k]), pen |-> cp]
            r == FoldLeft(G, [out |-> acc.out, pen |-> acc.pen], Iota(Len(chunks)))
        IN [out |-> r.out \o (IF i - 1 < b.rows - 1 /\ ~view[i].w THEN <<13, 10>> ELSE <<>>), pen |-> r.pen]
  IN FoldLeft(LineOut, [out |-> <<>>, pen |-> DefaultPen], Iota(cutoff)).out

CtxIsDefault(c) == c.col = 0 /\ c.row = 0 /\ c.pen = DefaultPen /\ ~c.origin /\ c.autowrap
CtxDump(c) ==                                  \* steps 3 and 5: re-create one saved context
  IF CtxIsDefault(c) THEN <<>>
  ELSE (IF ~c.autowrap THEN CSI8 \o <<63, 55, 108>> ELSE <<>>)
       \o (IF c.origin THEN CSI8 \o <<63, 54, 104>> ELSE <<>>)
       \o CSI8 \o Dec(c.row + 1) \o <<59>> \o Dec(c.col + 1) \o <<72>>
       \o PenDump(c.pen)
       \o <<27, 55>>
       \o (IF ~c.autowrap THEN CSI8 \o <<63, 55, 104>> ELSE <<>>)
       \o (IF c.origin THEN CSI8 \o <<63, 54, 108>> ELSE <<>>)

(* Terminal::dump                                                                *)
TermDump(t) ==
  LET pctx == IF t.alt THEN t.asaved ELSE t.saved
      actx == IF t.alt THEN t.saved ELSE t.asaved
      Cup(r, c) == CSI8 \o Dec(r + 1) \o <<59>> \o Dec(c + 1) \o <<72>>
      s1 == BufDump(PrimaryBuf(t))                                             \* DumpPrimaryWithStaleGeometry
      s2 == IF t.tabs # NewTabs(t.cols)
            THEN CSI8 \o <<53, 87>> \o Cat([i \in 1..Len(t.tabs) |-> CSI8 \o Dec(t.tabs[i] + 1) \o <<96, 27, 91, 87>>])
            ELSE <<>>
      s3 == CtxDump(pctx) \o <<27, 91, 109>>
      s4 == (IF t.alt \/ ~CtxIsDefault(actx) THEN CSI8 \o <<63, 49, 48, 52, 55, 104>> ELSE <<>>)
            \o (IF t.alt THEN CSI8 \o <<49, 59, 49, 72>> \o BufDump(AlternateBuf(t)) ELSE <<>>)
      s5 == CtxDump(actx)
      s6 == IF ~t.alt /\ ~CtxIsDefault(actx) THEN CSI8 \o <<63, 49, 48, 52, 55, 108>> ELSE <<>>
      s7 == IF t.origin THEN CSI8 \o <<63, 54, 104>> ELSE <<>>
      s8 == IF t.top > 0 \/ t.bottom < t.rows - 1 THEN CSI8 \o Dec(t.top + 1) \o <<59>> \o Dec(t.bottom + 1) \o <<114>> ELSE <<>>
      s9 == IF t.origin
            THEN IF t.row < t.top \/ t.row > t.bottom
                 THEN CSI8 \o <<117>>                                         \* DumpCursorViaSavedCtx
                      \o (IF t.col < t.saved.col THEN CSI8 \o Dec(t.saved.col - t.col) \o <<68>>
                          ELSE IF t.col > t.saved.col THEN CSI8 \o Dec(t.col - t.saved.col) \o <<67>> ELSE <<>>)
                      \o (IF t.row < t.saved.row THEN CSI8 \o Dec(t.saved.row - t.row) \o <<65>>
                          ELSE IF t.row > t.saved.row THEN CSI8 \o Dec(t.row - t.saved.row) \o <<66>> ELSE <<>>)
                 ELSE Cup(t.row - t.top, t.col)
            ELSE Cup(t.row, t.col)
      s9b == IF t.col >= t.cols
             THEN LET cell == CellAt(t.buf, t.cols - 1, t.row) IN PenDump(cell[2]) \o <<cell[1]>>
             ELSE <<>>
      s9c == PenDump(t.pen) \o (IF ~t.vis THEN CSI8 \o <<63, 50, 53, 108>> ELSE <<>>)
      s10 == (IF t.g0 = 1 THEN <<27, 40, 48>> ELSE <<>>) \o (IF t.g1 = 1 THEN <<27, 41, 48>> ELSE <<>>)
             \o (IF t.gl = 1 THEN <<14>> ELSE <<>>)
      s11 == IF t.insert THEN CSI8 \o <<52, 104>> ELSE <<>>
      s12 == IF ~t.autowrap THEN CSI8 \o <<63, 55, 108>> ELSE <<>>
      s13 == IF t.newline THEN CSI8 \o <<50, 48, 104>> ELSE <<>>
      s14 == IF t.ckm THEN CSI8 \o <<63, 49, 104>> ELSE <<>>
  IN s1 \o s2 \o s3 \o s4 \o s5 \o s6 \o s7 \o s8 \o s9 \o s9b \o s9c \o s10 \o s11 \o s12 \o s13 \o s14

VtDump(vt) == TermDump(vt.t) \o ParserDump(vt.p)
(* the terminal a dump restores to                                               *)
Restored(vt) == FeedStr(Fresh(vt.t.cols, vt.t.rows, vt.t.lim), VtDump(vt)).vt
=============================================================================
