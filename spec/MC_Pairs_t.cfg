SPECIFICATION Spec
INVARIANT AllOK
VIEW McView
CHECK_DEADLOCK FALSE
CONSTANTS
  Sizes <- PairsSizesT
  Limits <- LimMix
  Fills <- PairsFills
  Alphabet <- PairsAlphabet
  Resizes <- PairsResizes
  MaxDepth = 2
  Emit = TRUE
  CheckDump = FALSE
  ExcuseKnown = TRUE
