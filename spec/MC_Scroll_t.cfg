SPECIFICATION Spec
INVARIANT AllOK
VIEW McView
CHECK_DEADLOCK FALSE
CONSTANTS
  Sizes <- ScrollSizesT
  Limits <- Lim01
  Fills <- ScrollInitFills
  Alphabet <- ScrollAlphabet
  Resizes <- ScrollResizes
  MaxDepth = 3
  Emit = TRUE
  CheckDump = FALSE
  ExcuseKnown = TRUE
