------------------------------ MODULE ParserRef ------------------------------
(* C03 "dispatch is exact and memoryless": the MEANING of a complete control     *)
(* sequence, read off its text in one go - split at ';' and ':', decimal values   *)
(* modulo 2^16, first 32 parameters, first 6 sub-parameters, private marker only  *)
(* in first position, intermediates only after the parameters - with no parser    *)
(* state whatsoever.  The incremental parser (Parser.tla Step, and the real       *)
(* avt::parser) must dispatch exactly this, whatever was parsed before.           *)
(* The dispatch TABLE (which final byte means which function) is data shared      *)
(* with Parser.tla (CsiDispatch / EscDispatch); what is independent here is       *)
(* everything a state machine can get wrong: accumulation, clearing, saturation,  *)
(* ordering, stale state.                                                         *)
EXTENDS Parser, FiniteSets

(* decimal value of a digit string, modulo 2^16; the empty string is 0            *)
Value(ds) == FoldLeft(LAMBDA acc, d : (10 * acc + (d - 48)) % 65536, 0, ds)

(* split a sequence at a separator into its pieces (always at least one piece)    *)
SplitAt(s, sep) ==
  LET F(acc, c) == IF c = sep THEN Append(acc, <<>>) ELSE [acc EXCEPT ![Len(acc)] = Append(@, c)]
  IN FoldLeft(F, <<<<>>>>, s)
(* saturation: pieces beyond the n-th are merged into the n-th (the separator is  *)
(* dropped, the digits keep accumulating) - what a fixed-size array does          *)
Saturate(pieces, n) ==
  IF Len(pieces) <= n THEN pieces
  ELSE SubSeq(pieces, 1, n - 1) \o <<FoldLeft(LAMBDA acc, k : acc \o pieces[k], <<>>, [i \in 1..(Len(pieces) - n + 1) |-> n - 1 + i])>>
ParamOf(item) == LET parts == Saturate(SplitAt(item, 58), PARTS_LEN) IN [k \in 1..Len(parts) |-> Value(parts[k])]
ParamsOf(ptxt) == LET items == Saturate(SplitAt(ptxt, 59), PARAMS_LEN) IN [k \in 1..Len(items) |-> ParamOf(items[k])]

IsCsiBody(b) ==                    \* everything after the introducer, final byte last
  /\ Len(b) >= 1 /\ b[Len(b)] \in 64..126
  /\ \A i \in 1..(Len(b) - 1) : b[i] \in 32..63
CsiMeaning(b) ==
  LET n == Len(b)
      pre == SubSeq(b, 1, n - 1)
      hasMarker == pre # <<>> /\ pre[1] \in 60..63
      rest == IF hasMarker THEN Tail(pre) ELSE pre
      np == Cardinality({i \in 1..Len(rest) : \A j \in 1..i : rest[j] \in 48..59})     \* length of the parameter prefix
      ptxt == SubSeq(rest, 1, np)
      itxt == SubSeq(rest, np + 1, Len(rest))
      wellFormed == /\ \A i \in 1..Len(itxt) : itxt[i] \in 32..47                     \* no parameter or marker after an intermediate
                    /\ ~(~hasMarker /\ pre # <<>> /\ pre[1] = 58)                     \* ':' right after the introducer
      inter == IF itxt # <<>> THEN itxt[Len(itxt)] ELSE IF hasMarker THEN pre[1] ELSE -1
  IN IF wellFormed THEN CsiDispatch([state |-> "Ground", params |-> ParamsOf(ptxt), inter |-> inter], b[n]) ELSE None

IsEscBody(b) ==                    \* after ESC: intermediates, then a final that does not open a string / CSI
  /\ Len(b) >= 1 /\ b[Len(b)] \in 48..126
  /\ \A i \in 1..(Len(b) - 1) : b[i] \in 32..47
  /\ (Len(b) = 1 => b[1] \notin {80, 88, 91, 93, 94, 95})
EscMeaning(b) ==
  LET n == Len(b) IN
  EscDispatch([state |-> "Ground", params |-> <<<<0>>>>, inter |-> IF n > 1 THEN b[n - 1] ELSE -1], b[n])

(* C20: a control string - OSC, DCS, SOS, PM or APC introducer (7- or 8-bit), any  *)
(* payload without CAN / SUB / ESC / C1 (and without BEL for OSC), terminated by    *)
(* ST (7- or 8-bit) or, for OSC, BEL - means nothing at all.                        *)
StringIntro(s) ==      \* -> <<length of the introducer, is OSC>>, or <<0, FALSE>>
  IF Len(s) >= 1 /\ s[1] \in {157, 144, 152, 158, 159} THEN <<1, s[1] = 157>>
  ELSE IF Len(s) >= 2 /\ s[1] = 27 /\ s[2] \in {93, 80, 88, 94, 95} THEN <<2, s[2] = 93>>
  ELSE <<0, FALSE>>
IsStringToken(s) ==
  LET si == StringIntro(s)  k == si[1]  osc == si[2]  n == Len(s)
      tlen == IF n >= k + 2 /\ s[n - 1] = 27 /\ s[n] = 92 THEN 2
              ELSE IF n >= k + 1 /\ (s[n] = 156 \/ (osc /\ s[n] = 7)) THEN 1 ELSE 0
  IN /\ k > 0 /\ tlen > 0
     /\ \A i \in (k + 1)..(n - tlen) : s[i] \notin {24, 26, 27} /\ ~(s[i] \in 128..159) /\ ~(osc /\ s[i] = 7)

(* a token = introducer + body, fed to a parser in ANY state                      *)
TokenMeaning(s) ==
  IF IsStringToken(s) THEN [known |-> TRUE, fn |-> None] ELSE
  IF Len(s) >= 2 /\ s[1] = 155 /\ IsCsiBody(Tail(s)) THEN [known |-> TRUE, fn |-> CsiMeaning(Tail(s))]
  ELSE IF Len(s) >= 3 /\ s[1] = 27 /\ s[2] = 91 /\ IsCsiBody(SubSeq(s, 3, Len(s))) THEN [known |-> TRUE, fn |-> CsiMeaning(SubSeq(s, 3, Len(s)))]
  ELSE IF Len(s) >= 2 /\ s[1] = 27 /\ IsEscBody(Tail(s)) THEN [known |-> TRUE, fn |-> EscMeaning(Tail(s))]
  ELSE [known |-> FALSE, fn |-> None]
=============================================================================
