SPECIFICATION Spec
INVARIANT AllOK
VIEW PView
CHECK_DEADLOCK FALSE
CONSTANTS
  Alphabet <- ParserAlphabet
  MaxLen = 6
