SPECIFICATION Spec
INVARIANT AllOK
VIEW McView
CHECK_DEADLOCK FALSE
CONSTANTS
  Sizes <- SgrSizes
  Limits <- Lim0
  Fills <- NoFill
  Alphabet <- SgrAlphabet
  Resizes <- NoResize
  MaxDepth = 4
  Emit = TRUE
  CheckDump = FALSE
  ExcuseKnown = TRUE
