SPECIFICATION Spec
INVARIANT AllOK
VIEW LView
CHECK_DEADLOCK FALSE
CONSTANTS
  Sizes <- OneRow
  Limits <- Eleven
  Alphabet <- LfAlphabet
  MaxDepth = 16
  Emit = FALSE
