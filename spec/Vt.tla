--------------------------------- MODULE Vt ---------------------------------
(* vt.rs: the public object.  Vt = [p |-> Pars, t |-> Term].                   *)
(* Every public call is one operator; multi-step calls are explicit folds      *)
(* (feed_str = FeedChar* . EndCall), never one "magic" action.                 *)
EXTENDS Parser, Terminal

Fresh(cols, rows, lim) == [p |-> InitP, t |-> NewTerm(cols, rows, lim)]        \* Builder::build

(* One character: parser step, then at most one terminal function.             *)
FeedChar(vt, c) ==
  LET r == Step(vt.p, c) IN [p |-> r.p, t |-> Exec(vt.t, r.out)]
FeedChars(vt, s) == FoldLeft(FeedChar, vt, s)                                  \* Vt::feed repeated

(* Vt::feed_str -> [vt, ch, dr]                                                 *)
FeedStr(vt, s) ==
  LET v == FeedChars(vt, s)  e == EndCall(v.t)
  IN [vt |-> [p |-> v.p, t |-> e.t], ch |-> e.ch, dr |-> e.dr]

(* Vt::resize -> [vt, ch, dr]                                                   *)
ResizeCall(vt, c, r) ==
  LET e == EndCall(TResize(vt.t, c, r))
  IN [vt |-> [p |-> vt.p, t |-> e.t], ch |-> e.ch, dr |-> e.dr]

(* The functions a string makes the terminal execute, in order (for ownership  *)
(* and for recognising RIS / screen switches by PARSING, never textually).     *)
Functions(p0, s) ==
  LET F(acc, c) == LET r == Step(acc.p, c) IN
                   [p |-> r.p, fs |-> IF r.out = None THEN acc.fs ELSE Append(acc.fs, r.out)]
  IN FoldLeft(F, [p |-> p0, fs |-> <<>>], s).fs

\* ---------------------------------------------------------- public observation
(* What a user can see through the public API (C11/C12/C19 relations).         *)
Pub(vt) == [cols |-> vt.t.cols, rows |-> vt.t.rows, view |-> View(vt.t.buf),
            col |-> vt.t.col, row |-> vt.t.row, vis |-> vt.t.vis, ckm |-> vt.t.ckm]
=============================================================================
