SPECIFICATION Spec
INVARIANT AllOK
VIEW LView
CHECK_DEADLOCK FALSE
CONSTANTS
  Sizes <- LimitSizes
  Limits <- LimitLimits
  Alphabet <- LimitAlphabet
  MaxDepth = 5
  Emit = TRUE
