--------------------------------- MODULE MC ---------------------------------
(* Bounded models of the specification.  One generic module; each model          *)
(* (MC_*.cfg) chooses sizes, scrollback limits, initial fills, an alphabet of     *)
(* Function values and a depth.  TLC enumerates EVERY reachable state and EVERY    *)
(* transition within the bound; on each transition the declarative properties     *)
(* (Props.tla, StepProps.tla) are evaluated, and - with Emit - the transition is   *)
(* printed as a behaviour (path from the initial state + expected state) that the  *)
(* harness replays on the real code: one implementation test per transition of    *)
(* TLC's state graph.                                                             *)
(*                                                                                *)
(* Functions reach the terminal through the public character interface:            *)
(* FeedStr(vt, Enc(fn)), with the lemma EncRoundTrip(fn) checked on the way.       *)
EXTENDS StepProps, Encode, Dump, Json

CONSTANTS Sizes,            \* set of <<cols, rows>>
          Limits,           \* set of scrollback limits (-1 = unlimited)
          Fills,            \* set of code-point strings fed first (row-labelled content, modes)
          Alphabet(_),      \* Term -> set of Function values to try in that state
          Resizes(_),       \* Term -> set of <<cols, rows>> to resize to
          MaxDepth,         \* number of calls after the fill
          Emit,             \* print every transition as a replayable behaviour
          ExcuseKnown,      \* C11: states in the two known-finding classes are excused (FALSE only in MC_DumpKnown)
          CheckDump         \* also check C11 (dump / restore / probes) in every state reached

VARIABLES vt,     \* the Vt
          hist,   \* [init, ops]: how this state was reached (hidden from the fingerprint by VIEW)
          ok      \* conjunction of all property verdicts on the path

vars == <<vt, hist, ok>>
McView == <<vt, ok>>
McViewPath == <<vt, ok, hist>>     \* every PATH is a state: for models whose behaviours are also fed as one call (what a call reports may depend on the path)

(* all property predicates on one call: (pre-state, function or "resize", result) *)
JudgeCall(pre, fns, r) ==
  /\ GeomOK(r.vt)
  /\ DesignInv(r.vt)
  /\ PendingWrapOK(pre, fns, r.vt)
  /\ ChangesOK(r.ch, r.vt.t.rows)
  /\ Bound(r.vt)
  /\ ChangesSound(pre, r.vt, r.ch)
(* C11 on the specification: the terminal restored from the dump is              *)
(* observationally equal now and after each probe of the battery (outside the     *)
(* two dump-time classes the property list keeps as findings)                     *)
DumpProbes ==
  { <<27, 91, 49, 59, 49, 72, 88>>,                              \* CUP 1;1 X        (origin / top margin)
    <<10>>, <<27, 91, 57, 57, 57, 59, 49, 72, 10, 89>>,          \* LF ; CUP 999;1 LF Y   (bottom margin, scroll)
    <<27, 91, 49, 59, 57, 57, 57, 72, 97, 98>>,                  \* CUP 1;999 a b    (auto-wrap)
    <<14, 97, 113, 15, 113>>,                                    \* SO a q SI q      (charsets)
    <<13, 9, 9, 84>>,                                            \* CR HT HT T       (tabs)
    <<27, 56, 80>>,                                              \* DECRC P          (saved context, pen)
    <<155, 63, 49, 48, 52, 55, 104, 27, 56, 81>>,                \* ?1047h DECRC Q   (other screen's context)
    <<155, 63, 49, 48, 52, 55, 108, 82>>,                        \* ?1047l R
    <<97, 98, 99>>, <<13, 10>>,                                  \* insert mode, new-line mode
    <<109>>, <<59, 53, 72>>, <<27, 92>>, <<112>> }               \* the rest of a cut sequence (m, ;5H, ST, p)
DumpOK(v) ==
  \/ (ExcuseKnown /\ DumpClasses(v) # {})
  \/ LET rs == Restored(v) IN
     /\ ObsEq(v, rs) /\ HiddenEq(v, rs)
     /\ \A p \in DumpProbes : ObsEq(FeedStr(v, p).vt, FeedStr(rs, p).vt)
JudgeFn(pre, fn, r) ==
  /\ JudgeCall(pre, Functions(pre.p, Enc(fn)), r)
  /\ EncRoundTrip(fn)
  /\ (CheckDump => DumpOK(r.vt))
  /\ (fn.f # "Raw" /\ pre.p.state = "Ground" /\ StepProp(pre.t, fn) # "none") => StepOK(pre.t, fn, r.vt.t, r.ch, Drained(r.dr))
  /\ (fn.f = "Ris" /\ Functions(pre.p, Enc(fn)) = <<fn>>) => FreshEq(r.vt, Fresh(pre.t.cols, pre.t.rows, pre.t.lim))   \* C19 (ESC aborts any sequence)
JudgeResize(pre, r) ==
  /\ JudgeCall(pre, <<>>, r)
  /\ TabsResizeOK(pre.t, r.vt.t)                                                       \* C18
  /\ (r.vt.t.rows # pre.t.rows => r.vt.t.top = 0 /\ r.vt.t.bottom = r.vt.t.rows - 1)   \* C05/C06
  /\ (r.vt.t.rows = pre.t.rows => r.vt.t.top = pre.t.top /\ r.vt.t.bottom = pre.t.bottom)
  /\ (~pre.t.alt /\ pre.t.lim = -1) => ResizeTextOK(pre.t, r.vt.t)                    \* C10
  /\ (CheckDump => DumpOK(r.vt))

Behaviour(h, st, ch) == "@@ BEHAVIOUR " \o ToJson([init |-> h.init, ops |-> h.ops, st |-> st, ch |-> ch])

Init ==
  \E sz \in Sizes, lim \in Limits, fill \in Fills :
    LET r == FeedStr(Fresh(sz[1], sz[2], lim), fill) IN
    /\ vt = r.vt
    /\ hist = [init |-> <<sz[1], sz[2], lim>>, ops |-> <<[k |-> "fs", s |-> fill]>>]
    /\ ok = (GeomOK(r.vt) /\ Bound(r.vt) /\ (CheckDump => DumpOK(r.vt)))
    /\ Emit => PrintT(Behaviour(hist, vt, r.ch))

Feed ==
  \E fn \in Alphabet(vt.t) :
    LET s == Enc(fn)
        r == FeedStr(vt, s)
        h == [hist EXCEPT !.ops = Append(@, [k |-> "fs", s |-> s])]
    IN /\ vt' = r.vt
       /\ hist' = h
       /\ ok' = (ok /\ JudgeFn(vt, fn, r))
       /\ Emit => PrintT(Behaviour(h, r.vt, r.ch))

Resize ==
  \E sz \in Resizes(vt.t) :
    LET r == ResizeCall(vt, sz[1], sz[2])
        h == [hist EXCEPT !.ops = Append(@, [k |-> "rs", c |-> sz[1], r |-> sz[2]])]
    IN /\ vt' = r.vt
       /\ hist' = h
       /\ ok' = (ok /\ JudgeResize(vt, r))
       /\ Emit => PrintT(Behaviour(h, r.vt, r.ch))

Next == Len(hist.ops) <= MaxDepth /\ (Feed \/ Resize)
Spec == Init /\ [][Next]_vars

AllOK == ok
=============================================================================
