--------------------------------- MODULE MC ---------------------------------
(* Bounded models of the specification.  One generic module; each model          *)
(* (MC_*.cfg) chooses sizes, scrollback limits, initial fills, an alphabet of     *)
(* Function values and a depth.  TLC enumerates EVERY reachable state and EVERY    *)
(* transition within the bound; on each transition the declarative properties     *)
(* (Props.tla, StepProps.tla) are evaluated, and - with Emit - the transition is   *)
(* printed as a behaviour (path from the initial state + expected state) that the  *)
(* harness replays on the real code: one implementation test per transition of    *)
(* TLC's state graph.                                                             *)
(*                                                                                *)
(* Functions reach the terminal through the public character interface:            *)
(* FeedStr(vt, Enc(fn)), with the lemma EncRoundTrip(fn) checked on the way.       *)
EXTENDS StepProps, Encode, Json

CONSTANTS Sizes,            \* set of <<cols, rows>>
          Limits,           \* set of scrollback limits (-1 = unlimited)
          Fills,            \* set of code-point strings fed first (row-labelled content, modes)
          Alphabet(_),      \* Term -> set of Function values to try in that state
          Resizes(_),       \* Term -> set of <<cols, rows>> to resize to
          MaxDepth,         \* number of calls after the fill
          Emit              \* print every transition as a replayable behaviour

VARIABLES vt,     \* the Vt
          hist,   \* [init, ops]: how this state was reached (hidden from the fingerprint by VIEW)
          ok      \* conjunction of all property verdicts on the path

vars == <<vt, hist, ok>>
McView == <<vt, ok>>

(* all property predicates on one call: (pre-state, function or "resize", result) *)
JudgeCall(pre, fns, r) ==
  /\ GeomOK(r.vt)
  /\ DesignInv(r.vt)
  /\ PendingWrapOK(pre, fns, r.vt)
  /\ ChangesOK(r.ch, r.vt.t.rows)
  /\ Bound(r.vt)
  /\ ChangesSound(pre, r.vt, r.ch)
JudgeFn(pre, fn, r) ==
  /\ JudgeCall(pre, <<fn>>, r)
  /\ EncRoundTrip(fn)
  /\ r.vt.p = InitP \/ r.vt.p.state = "Ground"
  /\ StepProp(pre.t, fn) # "none" => StepOK(pre.t, fn, r.vt.t, r.ch, Drained(r.dr))
  /\ fn.f = "Ris" => FreshEq(r.vt, Fresh(pre.t.cols, pre.t.rows, pre.t.lim))          \* C19
JudgeResize(pre, r) ==
  /\ JudgeCall(pre, <<>>, r)
  /\ TabsResizeOK(pre.t, r.vt.t)                                                       \* C18
  /\ (r.vt.t.rows # pre.t.rows => r.vt.t.top = 0 /\ r.vt.t.bottom = r.vt.t.rows - 1)   \* C05/C06
  /\ (r.vt.t.rows = pre.t.rows => r.vt.t.top = pre.t.top /\ r.vt.t.bottom = pre.t.bottom)
  /\ (~pre.t.alt /\ pre.t.lim = -1) => ResizeTextOK(pre.t, r.vt.t)                    \* C10

Behaviour(h, st) == "@@ BEHAVIOUR " \o ToJson([init |-> h.init, ops |-> h.ops, st |-> st])

Init ==
  \E sz \in Sizes, lim \in Limits, fill \in Fills :
    LET r == FeedStr(Fresh(sz[1], sz[2], lim), fill) IN
    /\ vt = r.vt
    /\ hist = [init |-> <<sz[1], sz[2], lim>>, ops |-> <<[k |-> "fs", s |-> fill]>>]
    /\ ok = (GeomOK(r.vt) /\ Bound(r.vt))
    /\ Emit => PrintT(Behaviour(hist, vt))

Feed ==
  \E fn \in Alphabet(vt.t) :
    LET s == Enc(fn)
        r == FeedStr(vt, s)
        h == [hist EXCEPT !.ops = Append(@, [k |-> "fs", s |-> s])]
    IN /\ vt' = r.vt
       /\ hist' = h
       /\ ok' = (ok /\ JudgeFn(vt, fn, r))
       /\ Emit => PrintT(Behaviour(h, r.vt))

Resize ==
  \E sz \in Resizes(vt.t) :
    LET r == ResizeCall(vt, sz[1], sz[2])
        h == [hist EXCEPT !.ops = Append(@, [k |-> "rs", c |-> sz[1], r |-> sz[2]])]
    IN /\ vt' = r.vt
       /\ hist' = h
       /\ ok' = (ok /\ JudgeResize(vt, r))
       /\ Emit => PrintT(Behaviour(h, r.vt))

Next == Len(hist.ops) <= MaxDepth /\ (Feed \/ Resize)
Spec == Init /\ [][Next]_vars

AllOK == ok
=============================================================================
