SPECIFICATION Spec
INVARIANT AllOK
VIEW McView
CHECK_DEADLOCK FALSE
CONSTANTS
  Sizes <- AltReturnSizes
  Limits <- Lim01
  Fills <- AltFills
  Alphabet <- AltReturnAlphabet
  Resizes <- AltReturnResizes
  MaxDepth = 6
  Emit = TRUE
  CheckDump = FALSE
  ExcuseKnown = TRUE
