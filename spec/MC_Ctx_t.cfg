SPECIFICATION Spec
INVARIANT AllOK
VIEW McView
CHECK_DEADLOCK FALSE
CONSTANTS
  Sizes <- CtxSizes
  Limits <- LimMix
  Fills <- NoFill
  Alphabet <- CtxAlphabet
  Resizes <- CtxResizes
  MaxDepth = 7
  Emit = TRUE
  CheckDump = FALSE
  ExcuseKnown = TRUE
