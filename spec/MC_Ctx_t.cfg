SPECIFICATION Spec
INVARIANT AllOK
VIEW McView
CHECK_DEADLOCK FALSE
CONSTANTS
  Sizes <- CtxSizes
  Limits <- Lim0
  Fills <- NoFill
  Alphabet <- CtxAlphabet
  Resizes <- CtxResizes
  MaxDepth = 6
  Emit = TRUE
  CheckDump = FALSE
  ExcuseKnown = TRUE
