SPECIFICATION Spec
INVARIANT AllOK
CHECK_DEADLOCK FALSE
CONSTANTS
  MaxLines = 2
  MaxLineLen = 6
  MaxW = 4
  MaxH = 3
  MidResize = TRUE
