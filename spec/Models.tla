------------------------------- MODULE Models -------------------------------
(* The bounded models: constants for MC.tla, selected by the MC_*.cfg files.     *)
(* Parameter classes: default(0), 1, 2, edge-1, edge, edge+1, 65535.             *)
EXTENDS MC

Classes(e) == {n \in {0, 1, 2, e - 1, e, e + 1, 65535} : n >= 0}
Few(e) == {n \in {0, 1, e, e + 1} : n >= 0}
Str(s) == s                                   \* code-point strings are written as tuples
CRLF == <<13, 10>>
Quick == FALSE

Raw(s) == [f |-> "Raw", a |-> s]
NoResize(t) == {}
Lim0 == {0}
LimInf == {-1}
LimMix == {-1, 0, 1}
Lim01 == {0, 1}
NoFill == {<<>>}

\* ------------------------------------------------------------- C05: cursor
CursorFns(t) ==
  LET CC == Classes(t.cols)  RR == Classes(t.rows) IN
     {F1(f, n) : f \in {"Cuu", "Cud", "Cnl", "Cpl", "Vpa", "Vpr"}, n \in RR}
  \cup {F1(f, n) : f \in {"Cuf", "Cub", "Cha"}, n \in CC}
  \cup {F1(f, n) : f \in {"Cht", "Cbt"}, n \in {0, 1, 2}}
  \cup {F2("Cup", a, b) : a \in Few(t.rows), b \in Few(t.cols)}
  \cup {F0(f) : f \in {"Bs", "Cr", "Ht", "Lf", "Nel", "Ri"}}
Margins(t) == {F2("Decstbm", a, b) : a \in 0..(t.rows + 1), b \in 0..(t.rows + 1)}
CursorAlphabet(t) ==
  CursorFns(t) \cup Margins(t)
  \cup {FS("Decset", <<6>>), FS("Decrst", <<6>>), FS("Sm", <<20>>), FS("Rm", <<20>>), F1("Print", 97)}
CursorSizes == {<<1, 1>>, <<2, 1>>, <<1, 2>>, <<2, 2>>, <<3, 2>>, <<2, 3>>, <<3, 3>>}
CursorSizesBig == CursorSizes \cup {<<4, 3>>, <<3, 4>>, <<4, 4>>, <<9, 2>>, <<17, 1>>}
CursorResizes(t) == {<<c, r>> \in {<<1, 1>>, <<2, 3>>, <<3, 2>>, <<3, 3>>} : <<c, r>> # <<t.cols, t.rows>>}

\* ------------------------------------------------------------- C04: printing
PrintAlphabet(t) ==
     {F1("Print", c) : c \in {97, 113, 233, 12385}}          \* 'a', 'q' (in the drawing range), e-acute, U+3061 (low byte in the drawing range)
  \cup {FS("Decset", <<7>>), FS("Decrst", <<7>>), FS("Sm", <<4>>), FS("Rm", <<4>>),
        F0("So"), F0("Si"), F1("Gzd4", 1), F1("Gzd4", 0), F1("G1d4", 1), F0("Cr"), F0("Lf"), F0("Bs")}
  \cup {F1("Rep", n) : n \in {0, 2, t.cols, t.cols + 1, 2 * t.cols + 1}}
  \cup {F2("Cup", a, b) : a \in {1, t.rows}, b \in {1, t.cols}}
  \cup {F2("Decstbm", 1, t.rows - 1), F2("Decstbm", 2, t.rows), F2("Decstbm", 0, 0)}
  \cup {FS("Sgr", <<<<48, 1>>>>), FS("Sgr", <<<<0, 0>>>>)}
(* printing below / above a short scroll region on narrow, tall screens (every print is a wrap) *)
PrintRegionAlphabet(t) ==
     {F1("Print", 97), FS("Decrst", <<7>>), FS("Decset", <<6>>), F0("Cr")}
  \cup {F2("Decstbm", a, b) : a \in 1..2, b \in 2..3} \cup {F2("Cup", a, 1) : a \in 1..t.rows}
PrintRegionSizes == {<<1, 4>>, <<2, 4>>}
PrintSizes == {<<1, 1>>, <<1, 2>>, <<2, 1>>, <<2, 2>>, <<3, 2>>, <<2, 3>>, <<3, 3>>}
PrintResizes(t) == {<<c, t.rows>> : c \in {1, 2, 3} \ {t.cols}}

\* ------------------------------------------------------------- C06: scrolling
Labelled(rows, cols) ==          \* "AAA\r\nBBB\r\n..." without a trailing line break
  FoldLeft(LAMBDA acc, i : acc \o (IF i > 1 THEN CRLF ELSE <<>>) \o Rep(64 + i, cols), <<>>, Iota(rows))
ScrollFills == {<<>>}
ScrollAlphabet(t) ==
  LET RR == Classes(t.rows) IN
     {F1(f, n) : f \in {"Su", "Sd", "Il", "Dl"}, n \in RR}
  \cup {F0(f) : f \in {"Lf", "Ri", "Nel"}}
  \cup {F2("Decstbm", a, b) : a \in 0..t.rows, b \in 0..(t.rows + 1)}
  \cup {F2("Cup", a, 1) : a \in 1..t.rows}
  \cup {F1("Print", 120), FS("Sgr", <<<<48, 2>>>>), FS("Sgr", <<<<0, 0>>>>)}
  \cup {FS("Decset", <<1047>>), FS("Decrst", <<1047>>)}
(* lean alphabet for depth 3: margins x cursor row x one scrolling / moving command *)
Scroll2Alphabet(t) ==
     {F0(f) : f \in {"Lf", "Nel", "Ri"}} \cup {F1(f, 1) : f \in {"Su", "Sd", "Il", "Dl", "Cuu", "Cud"}}
  \cup {F2("Decstbm", a, b) : a \in 0..t.rows, b \in 0..(t.rows + 1)}
  \cup {F2("Cup", a, 1) : a \in 1..t.rows} \cup {FS("Decset", <<6>>)}
Scroll2Sizes == {<<2, 3>>, <<1, 4>>}
Scroll2Fills == {Labelled(4, 2)}
ScrollSizes == {<<1, 1>>, <<2, 2>>, <<1, 3>>, <<2, 3>>, <<2, 4>>}
ScrollSizesQ == {<<1, 1>>, <<2, 2>>, <<2, 3>>}
ScrollSizesT == {<<1, 1>>, <<2, 2>>, <<1, 3>>, <<2, 3>>}
SgrSizes == {<<2, 2>>}
ScrollResizes(t) == {<<c, r>> \in {<<2, 2>>, <<2, 3>>, <<1, 4>>} : <<c, r>> # <<t.cols, t.rows>>}
ScrollInitFills == {Labelled(sz[2], sz[1]) : sz \in ScrollSizes} \cup {<<>>}
ScrollLimits == {-1, 0, 1}

\* ------------------------------------------------------------- C07: editing
EditAlphabet(t) ==
  LET CC == Classes(t.cols) IN
     {F1(f, n) : f \in {"Ich", "Dch", "Ech"}, n \in CC}
  \cup {F1("El", n) : n \in 0..2} \cup {F1("Ed", n) : n \in 0..3} \cup {F0("Decaln")}
  \cup {F2("Cup", a, b) : a \in 1..t.rows, b \in {1, t.cols}}
  \cup {F1("Print", 121), FS("Sgr", <<<<48, 3>>>>), FS("Sgr", <<<<0, 0>>>>)}
EditSizes == {<<1, 1>>, <<2, 2>>, <<3, 2>>, <<4, 2>>, <<3, 3>>}
EditFills == {<<>>, <<65, 65, 65, 65, 65, 66, 66>>,       \* a soft-wrapped row on narrow screens
              <<28450, 98, 28450, 99>>}                 \* double-width characters (U+6F22) in the first and the last column of 3 columns

\* ------------------------------------------------------------- C08: SGR
SgrOpsSmall == {<<0, 0>>, <<1, 0>>, <<2, 0>>, <<22, 0>>, <<3, 0>>, <<23, 0>>, <<5, 0>>, <<25, 0>>, <<7, 0>>, <<27, 0>>,
                <<9, 0>>, <<29, 0>>, <<4, 0>>, <<24, 0>>, <<38, 1>>, <<38, 255>>, <<38, 256 + 66051>>, <<39, 0>>,
                <<48, 9>>, <<48, 256 + 16777215>>, <<49, 0>>}
SgrAlphabet(t) ==
     {FS("Sgr", <<a>>) : a \in SgrOpsSmall}
  \cup {FS("Sgr", <<a, b>>) : a \in {<<0, 0>>, <<1, 0>>, <<38, 1>>, <<25, 0>>}, b \in {<<2, 0>>, <<5, 0>>, <<49, 0>>, <<48, 9>>}}
  \cup {F1("Print", 97), F1("El", 2), F0("Lf")}
(* "every cell printed or BLANKED afterwards reports exactly that pen": a few pens x every function that
   writes or blanks cells, with a region that starts at the top and stops short of the last row *)
SgrBlankAlphabet(t) ==
     {FS("Sgr", <<a>>) : a \in {<<0, 0>>, <<48, 9>>, <<7, 0>>, <<38, 256 + 66051>>}}
  \cup {F1("Print", 97), F1("Rep", 2), F0("Lf"), F0("Ri"), F0("Nel"), F2("Decstbm", 1, t.rows - 1), F2("Decstbm", 2, t.rows), F2("Cup", t.rows - 1, 1), F2("Cup", 1, t.cols)}
  \cup {F1(f, 1) : f \in {"Su", "Sd", "Il", "Dl", "Ich", "Dch", "Ech"}} \cup {F1("El", 0), F1("El", 1), F1("Ed", 0), F1("Ed", 1), F1("Ed", 2)}
  \cup {FS("Decset", <<1047>>), F1("Ich", 2), F1("Dch", 2), F1("Ech", 2)}      \* counts that reach the right edge / insert several blanks
SgrBlankSizes == {<<2, 3>>}

\* ------------------------------------------------ C16-C19: tabs, contexts, screens, resets
MiscAlphabet(t) ==
     {F0(f) : f \in {"Hts", "Ht", "Decsc", "Decrc", "Scosc", "Scorc", "Decstr", "Ris", "Cr", "Lf"}}
  \cup {F1("Ctc", n) : n \in {0, 2, 5}} \cup {F1("Tbc", n) : n \in {0, 3}} \cup {F1("Cbt", 1)}
  \cup {FS(f, <<m>>) : f \in {"Decset", "Decrst"}, m \in {1, 6, 7, 25, 1047, 1048, 1049}}
  \cup {F2("Cup", t.rows, t.cols), F2("Cup", 1, 2), F1("Print", 97), FS("Sgr", <<<<1, 0>>>>), F2("Decstbm", 1, t.rows - 1)}
MiscSizes == {<<1, 1>>, <<2, 2>>, <<3, 2>>, <<9, 2>>, <<10, 1>>}
MiscResizes(t) == {<<c, r>> \in {<<1, 1>>, <<8, 2>>, <<9, 1>>, <<17, 2>>} : <<c, r>> # <<t.cols, t.rows>>}

\* ------------------------------------------------------------- C16: alternate screen + resizes
AltAlphabet(t) ==
     {FS(f, <<m>>) : f \in {"Decset", "Decrst"}, m \in {1047, 1049}}
  \cup {F2("Cup", a, 1) : a \in 1..t.rows} \cup {F2("Cup", 1, t.cols)}
  \cup {F1("Print", 122), F0("Lf"), F0("Decsc"), F0("Decrc"), F0("Decstr"), F1("Ed", 2)}
AltLeanAlphabet(t) ==
     {FS(f, <<m>>) : f \in {"Decset", "Decrst"}, m \in {1047, 1049}}
  \cup {F2("Cup", a, 1) : a \in 1..t.rows} \cup {F1("Print", 122), F0("Lf"), F2("Decstbm", 1, t.rows - 1)}
(* the recurring family: state set up on one screen, a resize while the OTHER screen shows (the parked buffer keeps
   its old geometry and is re-wrapped only on the switch back), then a probe that depends on what must have survived *)
AltReturnAlphabet(t) ==
  IF t.alt
  THEN {FS("Decrst", <<1047>>), FS("Decrst", <<1049>>), F1("Print", 122), F2("Cup", t.rows, t.cols), F2("Decstbm", 1, t.rows - 1), F0("Decsc")}
  ELSE {FS("Decset", <<1047>>), FS("Decset", <<1049>>), F2("Decstbm", 2, t.rows), F0("Decsc"), F0("Decrc"), F0("Hts"), F2("Cup", t.rows, t.cols),
        F1("Print", 121), F0("Bs"), F1("Cub", 1), F1("Cht", 2), F0("Lf"), F0("Ri"), F1("Su", 1), FS("Decset", <<6>>)}
AltReturnResizes(t) == IF t.alt THEN {<<c, r>> \in {<<t.cols + 1, t.rows>>, <<t.cols - 1, t.rows>>, <<t.cols, t.rows + 1>>, <<t.cols, t.rows - 1>>, <<2 * t.cols, t.rows>>} : c >= 1 /\ r >= 1}
                       ELSE {}
AltReturnSizes == {<<3, 3>>, <<8, 2>>}
AltSizes == {<<2, 2>>, <<3, 2>>}
AltFills == {<<>>, Labelled(4, 2), <<65, 65, 65, 65, 65>>, <<97, 98, 32, 32, 99, 100, 32, 32, 101>>}   \* incl. a long line with blank middle rows
AltResizes(t) == {<<c, r>> \in {<<2, 2>>, <<2, 4>>, <<3, 3>>, <<1, 2>>, <<3, 1>>} : <<c, r>> # <<t.cols, t.rows>>}

\* ------------------------------------------------- C02/C17: saved contexts x screens x resizes
CtxAlphabet(t) ==
     {F2("Cup", t.rows, t.cols), F2("Cup", 1, 1), F0("Decsc"), F0("Decrc"), F1("Print", 97), FS("Sgr", <<<<1, 0>>>>)}
  \cup {FS(f, <<m>>) : f \in {"Decset", "Decrst"}, m \in {6, 7, 1047, 1048, 1049}}
  \cup {F2("Decstbm", 2, t.rows), F2("Decstbm", 1, t.rows - 1), F0("Decstr")}
CtxSizes == {<<3, 3>>}
(* with and without a context saved far out on the ALTERNATE screen before anything else happens (so that "shrink, come back, restore" fits the depth) *)
CtxFills == {<<>>, <<27, 91, 63, 49, 48, 52, 55, 104, 27, 91, 57, 57, 59, 57, 57, 72, 27, 55, 27, 91, 63, 49, 48, 52, 55, 108>>}
CtxLeanAlphabet(t) ==
     {F2("Cup", t.rows, t.cols), F0("Decsc"), F0("Decrc"), F1("Print", 97)}
  \cup {FS(f, <<m>>) : f \in {"Decset", "Decrst"}, m \in {1047, 1049}}
  \cup {FS("Decset", <<6>>), F2("Decstbm", 1, t.rows - 1), F2("Decstbm", 2, t.rows)}
CtxLeanResizes(t) == {<<c, r>> \in {<<2, 2>>, <<4, 5>>} : <<c, r>> # <<t.cols, t.rows>>}
CtxResizes(t) == {<<c, r>> \in {<<1, 1>>, <<2, 2>>, <<3, 3>>, <<4, 5>>} : <<c, r>> # <<t.cols, t.rows>>}

(* saved contexts x auto-wrap x pending wrap: on a 1- or 2-column screen every print reaches the wrap-pending    *)
(* position, so save / mode change / print / restore chains of length 5 cover "restore while a wrap is pending". *)
CtxWrapAlphabet(t) ==
  {FS("Decrst", <<7>>), FS("Decset", <<7>>), F0("Decsc"), F0("Decrc"), F0("Scorc"), F1("Print", 97), F1("Cub", 1), F0("Cr"),
   FS("Decset", <<1049>>), FS("Decrst", <<1049>>), FS("Decset", <<1048>>), FS("Decrst", <<1048>>), F0("Decstr")}
CtxWrapSizes == {<<1, 2>>, <<2, 2>>}
CtxWrapResizes(t) == {}

\* ------------------------------------------------------------- all pairs of functions from interesting states
(* One representative of EVERY Function (two where a parameter selects a different path), every ordered pair of  *)
(* them (depth 2), from each of a handful of prepared states: content with a soft-wrapped row and scrollback,    *)
(* plus one of: nothing; origin mode + region; a pending wrap left behind by switching auto-wrap off; the alternate screen; insert mode + auto-wrap off + new-line      *)
(* mode; a pending wrap with a coloured pen; a saved context taken in origin mode; a region that stops short of  *)
(* the last row with the cursor below it.  The lean family models go deeper on one mechanism each; this one is    *)
(* the safety net across mechanisms.                                                                              *)
PairsContent == <<65, 66, 13, 10, 67, 68, 69, 70, 13, 10, 71, 13, 10, 72, 73>>     \* AB / CDEF (wraps on 3 columns) / G / HI
PairsPreludes ==
  { <<>>,
    <<27, 91, 50, 59, 51, 114, 27, 91, 63, 54, 104>>,                          \* CSI 2;3 r  CSI ?6h
    <<27, 91, 63, 49, 48, 52, 57, 104, 120, 121>>,                             \* CSI ?1049h x y
    <<27, 91, 52, 104, 27, 91, 63, 55, 108, 27, 91, 50, 48, 104>>,             \* CSI 4h  CSI ?7l  CSI 20h
    <<27, 91, 52, 49, 109, 27, 91, 50, 59, 57, 57, 72, 122>>,                  \* CSI 41m  CSI 2;99H z   (wrap pending)
    <<27, 91, 63, 54, 104, 27, 91, 50, 59, 50, 72, 27, 55, 27, 91, 63, 54, 108>>,   \* CSI ?6h CSI 2;2H ESC 7 CSI ?6l
    <<27, 91, 49, 59, 50, 114, 27, 91, 57, 57, 59, 50, 72>>,                   \* CSI 1;2 r  CSI 99;2H   (below the region)
    <<27, 91, 50, 59, 57, 57, 72, 122, 27, 91, 63, 55, 108>>,                  \* CSI 2;99H z  CSI ?7l   (wrap pending, then auto-wrap off)
    <<27, 91, 63, 54, 104, 27, 91, 51, 59, 50, 72, 27, 55, 27, 91, 49, 59, 50, 114, 27, 56>> }   \* CSI ?6h CSI 3;2H ESC 7 CSI 1;2 r ESC 8   (origin mode on, cursor BELOW the region and above the last row)
PairsFills == {PairsContent \o p : p \in PairsPreludes}
PairsAlphabet(t) ==
     {F0(f) : f \in {"Bs", "Ht", "Lf", "Cr", "So", "Nel", "Hts", "Ri", "Decsc", "Decrc", "Ris", "Decaln", "Scosc", "Scorc", "Decstr"}}
  \cup {F1("Print", 97), F1("Gzd4", 1), F1("Ich", 1), F1("Cuu", 1), F1("Cud", 2), F1("Cuf", 1), F1("Cub", 1), F1("Cnl", 1), F1("Cpl", 1),
       F1("Cha", 2), F1("Cht", 1), F1("Cbt", 1), F1("Ed", 0), F1("Ed", 1), F1("El", 0), F1("El", 1), F1("Il", 1), F1("Dl", 1), F1("Dch", 1),
       F1("Su", 1), F1("Sd", 1), F1("Ech", 1), F1("Rep", 2), F1("Vpa", 3), F1("Vpr", 1), F1("Tbc", 0), F1("Ctc", 0)}
  \cup {F2("Cup", 2, 2), F2("Cup", t.rows, t.cols), F2("Decstbm", 2, 3), F2("Decstbm", 0, 0)}
  \cup {FS(f, <<m>>) : f \in {"Decset", "Decrst"}, m \in {6, 7, 1047, 1048, 1049}}
  \cup {FS("Sm", <<4>>), FS("Rm", <<4>>), FS("Sm", <<20>>), FS("Sgr", <<<<48, 2>>>>), FS("Sgr", <<<<0, 0>>>>)}
PairsSizes == {<<3, 4>>, <<9, 2>>}
PairsSizesT == {<<3, 4>>, <<9, 2>>, <<2, 3>>, <<4, 5>>}
PairsResizes(t) == {<<t.cols + 1, t.rows>>, <<t.cols, t.rows + 1>>} \cup {<<c, r>> \in {<<t.cols - 1, t.rows>>, <<t.cols, t.rows - 1>>} : c >= 1 /\ r >= 1}
Lim1 == {1}

\* ------------------------------------------------------------- whole calls: several functions in ONE feed_str
(* Every PATH (VIEW McViewPath) of up to MaxDepth functions that scroll, insert / delete rows, erase several rows,  *)
(* move across the margins or print, from three prepared states on a 3x4 screen (a region at the top with the       *)
(* cursor below it; a region in the middle in origin mode; no region).  Each path is replayed call by call AND as   *)
(* a single call: the changed-line report, the handed-out scrollback and the trim must be right for the call as a   *)
(* whole (C15, C13, C14, C12), whatever internal bookkeeping the functions share.                                   *)
BatchAlphabet(t) ==
  {F1("Su", 1), F1("Sd", 1), F1("Il", 1), F1("Dl", 1), F1("Ed", 0), F1("Ed", 1), F0("Lf"), F0("Ri"),
   F2("Cup", 1, 1), F2("Cup", 3, 1), F2("Cup", t.rows, 1), F1("Print", 97), F0("Decrc"), F0("Decsc"), FS("Sgr", <<<<48, 2>>>>)}
BatchFills ==
  { PairsContent \o <<27, 91, 49, 59, 50, 114, 27, 91, 57, 57, 59, 50, 72>>,       \* CSI 1;2 r  CSI 99;2H
    PairsContent \o <<27, 91, 50, 59, 51, 114, 27, 91, 63, 54, 104>>,              \* CSI 2;3 r  CSI ?6h
    PairsContent \o <<27, 91, 52, 49, 109, 27, 55, 27, 91, 109, 27, 91, 57, 57, 59, 49, 72>>,     \* CSI 41m ESC 7 CSI m CSI 99;1H  (a saved context with another pen; cursor on the last row)
    PairsContent }
BatchSizes == {<<3, 4>>}

(* contexts saved far out (on the alternate screen, on the primary screen), then: shrink, switch screens, restore, print *)
CtxShrinkAlphabet(t) ==
  {FS(f, <<m>>) : f \in {"Decset", "Decrst"}, m \in {1047, 1048, 1049}} \cup {F0("Decrc"), F0("Scorc"), F1("Print", 97), F0("Lf")}
CtxShrinkSizes == {<<3, 3>>}
CtxShrinkFills == {<<27, 91, 63, 49, 48, 52, 55, 104, 27, 91, 57, 57, 59, 57, 57, 72, 27, 55, 27, 91, 63, 49, 48, 52, 55, 108>>,   \* ?1047h CUP 99;99 DECSC ?1047l
                   <<27, 91, 57, 57, 59, 57, 57, 72, 27, 55, 27, 91, 72>>}                                                   \* CUP 99;99 DECSC CUP
CtxShrinkResizes(t) == {<<c, r>> \in {<<2, 2>>, <<3, 2>>, <<2, 3>>} : <<c, r>> # <<t.cols, t.rows>>}

\* ------------------------------------------------------------- C11: dump / restore
DumpAlphabet(t) ==
     {F1("Print", 97), F0("Cr"), F0("Lf"), F0("So"), F1("Gzd4", 1), F1("G1d4", 1), F0("Hts"), F1("Tbc", 3), F0("Decsc")}
  \cup {FS(f, <<m>>) : f \in {"Decset", "Decrst"}, m \in {1, 6, 7, 25, 1047}}
  \cup {FS("Sm", <<4>>), FS("Sm", <<20>>), FS("Sgr", <<<<7, 0>>>>), FS("Sgr", <<<<48, 200>>>>)}
  \cup {F2("Cup", t.rows, t.cols), F2("Cup", 1, 2), F2("Decstbm", 2, t.rows), F2("Decstbm", 1, t.rows - 1)}
  \cup {Raw(<<27, 91>>), Raw(<<27, 91, 51>>), Raw(<<27, 91, 63, 50>>), Raw(<<27, 93, 97>>), Raw(<<27, 80, 49>>), Raw(<<27>>), Raw(<<27, 40>>), Raw(<<27, 91, 33>>)}
DumpSizes == {<<3, 3>>, <<2, 2>>}
(* pens through dump(): every colour at the boundaries between the encodings (basic 0-7, bright 8-15, the 256-   *)
(* colour form from 16, RGB), both grounds, every attribute, in the current pen, on a cell and in a saved context *)
DumpPenAlphabet(t) ==
     {FS("Sgr", <<<<g, c>>>>) : g \in {38, 48}, c \in {0, 7, 8, 15, 16, 17, 255, 256, 256 + 65536 * 1 + 256 * 2 + 3}}
  \cup {FS("Sgr", <<<<a, 0>>>>) : a \in {1, 2, 3, 4, 5, 7, 9}}
  \cup {F1("Print", 97), F0("Decsc"), F1("El", 0)}
DumpPenSizes == {<<2, 1>>}
(* dump() after the size changed: saved contexts (also the other screen's, set far out before a shrink), margins  *)
(* and origin mode across a shrink, entering / leaving the alternate screen afterwards                           *)
DumpResizeAlphabet(t) ==
  {FS("Decset", <<1047>>), FS("Decrst", <<1047>>), F0("Decsc"), F2("Cup", t.rows, t.cols), F1("Print", 97),
   F2("Decstbm", 2, t.rows), FS("Decset", <<6>>)}
DumpResizeSizes == {<<3, 3>>}
DumpResizeResizes(t) == {<<c, r>> \in {<<2, 3>>, <<3, 2>>, <<2, 2>>, <<4, 4>>} : <<c, r>> # <<t.cols, t.rows>>}
DumpResizeFills == {<<>>, <<27, 91, 63, 49, 48, 52, 55, 104, 27, 91, 57, 57, 59, 57, 57, 72, 27, 55, 27, 91, 63, 49, 48, 52, 55, 108>>}   \* ?1047h CUP 99;99 DECSC ?1047l
(* the histories that lead into the two known-finding classes *)
DumpKnownAlphabet(t) ==
  {FS("Decset", <<6>>), F0("Decsc"), F0("Decrc"), F2("Decstbm", 2, t.rows), FS("Decset", <<1047>>), F1("Print", 97), F2("Cup", 1, 1)}
DumpKnownResizes(t) == {<<c, r>> \in {<<2, 3>>} : <<c, r>> # <<t.cols, t.rows>>}
DumpSizesQ == {<<3, 3>>}
DumpResizes(t) == {}
DumpFills == {<<>>, <<65, 65, 65, 65, 13, 10, 66>>}

\* ------------------------------------------------------------- C19: RIS from everywhere
(* one operation per state component, then RIS (FreshEq is checked on every RIS transition) *)
RisAlphabet(t) ==
  {FS("Decset", <<1>>), FS("Decset", <<6>>), FS("Decrst", <<7>>), FS("Decrst", <<25>>), FS("Sm", <<4>>), FS("Sm", <<20>>),
   F0("So"), F1("Gzd4", 1), F1("G1d4", 1), F0("Hts"), F1("Tbc", 3), F2("Decstbm", 2, t.rows), FS("Sgr", <<<<1, 0>>, <<48, 5>>>>),
   F0("Decsc"), FS("Decset", <<1047>>), FS("Decset", <<1049>>), F1("Print", 97), F0("Lf"), F2("Cup", t.rows, t.cols),
   Raw(<<27, 93, 97>>), Raw(<<27, 91, 49, 59>>), Raw(<<27, 80>>), Raw(<<27, 40>>), F0("Ris"),
   F0("Ht"), F1("Tbc", 0)}                                                \* (on 17 columns: one of two default stops cleared)
RisSizes == {<<3, 2>>, <<9, 1>>, <<2, 3>>, <<17, 1>>}
RisResizes(t) == {<<c, r>> \in {<<2, 4>>} : <<c, r>> # <<t.cols, t.rows>>}

\* ------------------------------------------------------------- C18: tab stops x widths
TabsAlphabet(t) ==
     {FS("Decset", <<1047>>), FS("Decrst", <<1047>>), F0("Hts"), F0("Ht"), F1("Cbt", 1), F1("Cht", 2), F1("Tbc", 0), F1("Tbc", 3), F1("Ctc", 0), F1("Ctc", 2), F0("Cr"), F1("Print", 97)}
  \cup {F1("Cha", k) : k \in {n \in {2, 8, 9, t.cols - 1, t.cols} : n >= 1}}
TabsSizes == {<<w, 1>> : w \in {1, 7, 8, 9, 16, 17}}
TabsResizes(t) == {<<w, 1>> : w \in {1, 7, 8, 9, 15, 16, 17, 24, 25, 32} \ {t.cols}}

\* ------------------------------------------------------------- C10: reflow
ReflowAlphabet(t) ==
     {F1("Print", c) : c \in {97, 32}} \cup {F0("Cr"), F0("Lf"), F1("El", 0), F1("El", 1), F1("Ech", 1), F1("Dch", 1)}
  \cup {F1("Cuu", 1), F1("Cuf", 1), F1("Cub", 1), FS("Sgr", <<<<48, 4>>>>), FS("Sgr", <<<<0, 0>>>>)}
  \cup {FS("Decset", <<6>>), F2("Decstbm", 2, t.rows)}
ReflowSizes == {<<1, 1>>, <<2, 2>>, <<3, 2>>, <<4, 2>>, <<2, 3>>}
ReflowFills == {<<>>, <<97, 98, 99, 100, 101>>, <<97, 98, 32, 32, 32, 99, 13, 10, 100>>, <<97, 13, 10, 13, 10, 98, 99, 100>>}
ReflowResizes(t) == {<<c, r>> \in {<<1, 1>>, <<1, 3>>, <<2, 2>>, <<3, 1>>, <<3, 3>>, <<5, 2>>} : <<c, r>> # <<t.cols, t.rows>>}
=============================================================================
