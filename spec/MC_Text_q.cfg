SPECIFICATION Spec
INVARIANT AllOK
CHECK_DEADLOCK FALSE
CONSTANTS
  MaxLines = 2
  MaxLineLen = 4
  MaxW = 3
  MaxH = 2
  MidResize = TRUE
