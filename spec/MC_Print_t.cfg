SPECIFICATION Spec
INVARIANT AllOK
VIEW McView
CHECK_DEADLOCK FALSE
CONSTANTS
  Sizes <- PrintSizes
  Limits <- LimMix
  Fills <- NoFill
  Alphabet <- PrintAlphabet
  Resizes <- PrintResizes
  MaxDepth = 4
  Emit = TRUE
  CheckDump = FALSE
  ExcuseKnown = TRUE
