SPECIFICATION Spec
INVARIANT AllOK
CHECK_DEADLOCK FALSE
CONSTANTS
  Symbols <- ChunkSymbols
  Sizes <- ChunkSizes
  Limits <- ChunkLimits
  MaxLen = 5
