----------------------------- MODULE StepProps ------------------------------
(* C04-C08, C17, C18, C19, C20 as pointwise predicates over one call that       *)
(* executes exactly ONE terminal function:                                      *)
(*        StepOK(t, fn, u, dr)                                                   *)
(* t = Term before the call, u = Term after the call (after the end-of-call      *)
(* report-and-trim), fn = the function, dr = the lines handed out through        *)
(* Changes.scrollback: Drained(lines), or Unread when the caller dropped them.     *)
(*                                                                              *)
(* Written from the property statements ("the cell under the cursor ...",       *)
(* "exactly the rows of its range ...", "and nothing else changes"), cell by     *)
(* cell, NOT by calling the operators of Terminal.tla.  Where a statement is     *)
(* silent (a wrap mark next to a scrolled region, ...) the predicate leaves the  *)
(* component free.                                                              *)
EXTENDS Props, FiniteSets

\* -------------------------------------------------------------------- helpers
Drained(lines) == [known |-> TRUE, lines |-> lines]      \* what Changes.scrollback handed out
Unread == [known |-> FALSE, lines |-> <<>>]             \* the caller dropped Changes unread
V(t) == View(t.buf)
SB(t) == Scrollback(t.buf)
VRow(t, r) == V(t)[r + 1]
VCell(t, r, k) == V(t)[r + 1].c[k + 1]
Blank(pen) == <<32, pen>>
NN(v) == IF v = 0 THEN 1 ELSE v                      \* "missing or 0 means 1"
ModeFields == {"cols", "rows", "alt", "lim", "vis", "pen", "g0", "g1", "gl", "tabs", "insert", "origin",
               "autowrap", "newline", "ckm", "top", "bottom", "saved", "asaved", "other"}
FrameExcept(t, u, ex) == \A f \in ModeFields \ ex : t[f] = u[f]
SameCursor(t, u) == u.col = t.col /\ u.row = t.row /\ u.pw = t.pw
SameView(t, u) == V(u) = V(t)
SameRowsExcept(t, u, rs) == \A r \in 0..(t.rows - 1) : r \in rs \/ VRow(u, r) = VRow(t, r)
RowCellsSame(t, u, r) == VRow(u, r).c = VRow(t, r).c

(* scrollback relation: the scrollback after the call, preceded by what was      *)
(* handed out, is the old scrollback followed by the rows `added`               *)
SbRel(t, u, added, dr) ==
  LET want == SB(t) \o added IN
  IF t.alt \/ ~dr.known THEN SuffixOf(SB(u), want)            \* (that the alternate screen keeps none is C13's Bound)
  ELSE dr.lines \o SB(u) = want
SbSame(t, u, dr) == SbRel(t, u, <<>>, dr)
CellsOf(lines) == [i \in 1..Len(lines) |-> lines[i].c]
SbRelCells(t, u, added, dr) ==                                   \* same, comparing cells only (marks aside)
  LET want == CellsOf(SB(t) \o added) IN
  IF t.alt \/ ~dr.known THEN Len(SB(u)) <= Len(want) /\ CellsOf(SB(u)) = LastN(want, Len(SB(u)))
  ELSE CellsOf(dr.lines \o SB(u)) = want

(* "Wrap pending" is defined PUBLICLY: the cursor column equals cols (C02: that  *)
(* column is reached only by printing in the last column with auto-wrap on).  The  *)
(* hidden pending_wrap flag must agree with it (checked separately as a design     *)
(* invariant), but the properties are judged on what a user can see.               *)
Pending(t) == t.col >= t.cols

\* ------------------------------------------------------------------------ C05
TabsAfter(t, col) == {i \in 1..Len(t.tabs) : t.tabs[i] > col}
TabsBefore(t, col) == {i \in 1..Len(t.tabs) : t.tabs[i] < col}
NthAfter(t, col, n) ==       \* the n-th stop right of col, or the last column
  LET S == TabsAfter(t, col) IN
  IF \E i \in S : Cardinality({j \in S : t.tabs[j] < t.tabs[i]}) = n - 1
  THEN t.tabs[CHOOSE i \in S : Cardinality({j \in S : t.tabs[j] < t.tabs[i]}) = n - 1] ELSE t.cols - 1
NthBefore(t, col, n) ==
  LET S == TabsBefore(t, col) IN
  IF \E i \in S : Cardinality({j \in S : t.tabs[j] > t.tabs[i]}) = n - 1
  THEN t.tabs[CHOOSE i \in S : Cardinality({j \in S : t.tabs[j] > t.tabs[i]}) = n - 1] ELSE 0
ClampCol(t, c) == Min2(Max2(c, 0), t.cols - 1)
UpTo(t, n) == IF t.row < t.top THEN Max2(t.row - n, 0) ELSE Max2(t.row - n, t.top)
DownTo(t, n) == IF t.row > t.bottom THEN Min2(t.row + n, t.rows - 1) ELSE Min2(t.row + n, t.bottom)
AbsRow(t, n) == IF t.origin THEN Min2(t.top + n - 1, t.bottom) ELSE Min2(n - 1, t.rows - 1)

(* Expected cursor <<col, row, pw>> of a pure cursor command.  A cursor in the   *)
(* wrap-pending position is logically one column beyond the last one             *)
(* (PendingWrapCountsAsBeyond): BS and CUB count from there.  A vertical move    *)
(* brings a pending cursor back onto the last column.                            *)
CursorTarget(t, fn) ==
  LET f == fn.f  a == fn.a  inCol == Min2(t.col, t.cols - 1) IN
  CASE f = "Cuu" -> <<inCol, UpTo(t, NN(a[1])), FALSE>>
    [] f \in {"Cud", "Vpr"} -> <<inCol, DownTo(t, NN(a[1])), FALSE>>
    [] f = "Cuf" -> <<ClampCol(t, t.col + NN(a[1])), t.row, FALSE>>
    [] f = "Cub" -> <<ClampCol(t, t.col - NN(a[1]) - (IF Pending(t) THEN 1 ELSE 0)), t.row, FALSE>>
    [] f = "Cnl" -> <<0, DownTo(t, NN(a[1])), FALSE>>
    [] f = "Cpl" -> <<0, UpTo(t, NN(a[1])), FALSE>>
    [] f = "Cha" -> <<ClampCol(t, NN(a[1]) - 1), t.row, FALSE>>
    [] f = "Vpa" -> <<inCol, AbsRow(t, NN(a[1])), FALSE>>
    [] f = "Cup" -> <<ClampCol(t, NN(a[2]) - 1), AbsRow(t, NN(a[1])), FALSE>>
    [] f = "Bs" -> <<ClampCol(t, t.col - (IF Pending(t) THEN 2 ELSE 1)), t.row, FALSE>>
    [] f = "Cr" -> <<0, t.row, FALSE>>
    [] f = "Ht" -> <<ClampCol(t, NthAfter(t, t.col, 1)), t.row, FALSE>>
    [] f = "Cht" -> <<ClampCol(t, NthAfter(t, t.col, NN(a[1]))), t.row, FALSE>>
    [] f = "Cbt" -> <<ClampCol(t, NthBefore(t, t.col, NN(a[1]))), t.row, FALSE>>
    [] f = "Lf" -> IF t.row < t.rows - 1 THEN <<IF t.newline THEN 0 ELSE inCol, t.row + 1, FALSE>>
                   ELSE IF t.newline THEN <<0, t.row, FALSE>> ELSE <<t.col, t.row, t.pw>>
    [] f = "Nel" -> <<0, IF t.row < t.rows - 1 THEN t.row + 1 ELSE t.row, FALSE>>
    [] f = "Ri" -> IF t.row > 0 THEN <<inCol, t.row - 1, FALSE>> ELSE <<t.col, t.row, t.pw>>
PureCursorFns == {"Cuu", "Cud", "Vpr", "Cuf", "Cub", "Cnl", "Cpl", "Cha", "Vpa", "Cup", "Bs", "Cr", "Ht", "Cht", "Cbt"}
IsScrollingStep(t, fn) ==
  \/ fn.f \in {"Lf", "Nel"} /\ t.row = t.bottom
  \/ fn.f = "Ri" /\ t.row = t.top
CursorMoveOK(t, fn, u, dr) ==
  /\ \/ <<u.col, u.row, u.pw>> = CursorTarget(t, fn)
     \/ (fn.f = "Lf" /\ t.newline /\ <<u.col, u.row, u.pw>> = CursorTarget([t EXCEPT !.newline = FALSE], fn))   \* silent: no statement says what the new-line mode adds to LF
  /\ SameView(t, u) /\ SbSame(t, u, dr)                 \* "None of these commands changes any cell"
  /\ FrameExcept(t, u, {})

(* DECOM and DECSTBM home the cursor; DECSTBM takes effect only for              *)
(* 1 <= top < bottom <= rows (C06), otherwise the margins stay.                  *)
HomeOK(t, u, origin, top) == u.col = 0 /\ u.row = (IF origin THEN top ELSE 0) /\ ~u.pw
DecomOK(t, on, u, dr) ==
  /\ u.origin = on /\ HomeOK(t, u, on, t.top)
  /\ SameView(t, u) /\ SbSame(t, u, dr) /\ FrameExcept(t, u, {"origin"})
DecstbmOK(t, fn, u, dr) ==
  LET tp == NN(fn.a[1])  bt == IF fn.a[2] = 0 THEN t.rows ELSE fn.a[2]
      valid == 1 <= tp /\ tp < bt /\ bt <= t.rows
  IN /\ (IF valid THEN u.top = tp - 1 /\ u.bottom = bt - 1 ELSE u.top = t.top /\ u.bottom = t.bottom)
     /\ (valid => HomeOK(t, u, t.origin, u.top))          \* an INVALID pair: homing is a silent point
     /\ SameView(t, u) /\ SbSame(t, u, dr) /\ FrameExcept(t, u, {"top", "bottom"})

\* ------------------------------------------------------------------------ C06
(* Rows a..b (inclusive) shifted up by k: row r takes the cells of row r + k,    *)
(* the last k rows become blanks in the current pen, rows outside are untouched. *)
(* Wrap marks: rows outside [a-1, b] keep theirs; moved rows keep theirs except  *)
(* the old last row of the range (free); new blank rows carry none.              *)
ShiftUpOK(t, u, a, b, k) ==
  \A r \in 0..(t.rows - 1) :
    IF r < a \/ r > b THEN /\ RowCellsSame(t, u, r)
                           /\ (r # a - 1 => VRow(u, r).w = VRow(t, r).w)     \* the row just above the range: silent point
    ELSE IF r <= b - k THEN /\ VRow(u, r).c = VRow(t, r + k).c
                            /\ (r + k # b => VRow(u, r).w = VRow(t, r + k).w)
    ELSE VRow(u, r) = BlankLine(t.cols, t.pen)
ShiftDownOK(t, u, a, b, k) ==
  \A r \in 0..(t.rows - 1) :
    IF r < a \/ r > b THEN /\ RowCellsSame(t, u, r)
                           /\ (r # a - 1 => VRow(u, r).w = VRow(t, r).w)     \* the row just above the range: silent point
    ELSE IF r >= a + k THEN /\ VRow(u, r).c = VRow(t, r - k).c
                            /\ (r # b => VRow(u, r).w = VRow(t, r - k).w)          \* the new last row of the range: silent point
    ELSE VRow(u, r) = BlankLine(t.cols, t.pen)
(* Rows scrolled off the top of a range that begins at the first row of the      *)
(* primary screen are appended to the scrollback unchanged and in order.         *)
ScrolledOff(t, a, k) == IF a = 0 /\ ~t.alt THEN SubSeq(V(t), 1, k) ELSE <<>>
ScrollUpOK(t, u, a, b, n, dr) ==
  LET k == Min2(n, b - a + 1) IN
  ShiftUpOK(t, u, a, b, k) /\ SbRelCells(t, u, ScrolledOff(t, a, k), dr)
ScrollDownOK(t, u, a, b, n, dr) ==
  LET k == Min2(n, b - a + 1) IN
  ShiftDownOK(t, u, a, b, k) /\ SbSame(t, u, dr)
IlDlLast(t) == IF t.row <= t.bottom THEN t.bottom ELSE t.rows - 1
ScrollFnOK(t, fn, u, dr) ==
  LET f == fn.f  a == fn.a IN
  /\ FrameExcept(t, u, {})
  /\ CASE f = "Su" -> ScrollUpOK(t, u, t.top, t.bottom, NN(a[1]), dr) /\ SameCursor(t, u)
       [] f = "Sd" -> ScrollDownOK(t, u, t.top, t.bottom, NN(a[1]), dr) /\ SameCursor(t, u)
       [] f = "Il" -> ScrollDownOK(t, u, t.row, IlDlLast(t), NN(a[1]), dr) /\ SameCursor(t, u)
       [] f = "Dl" -> ScrollUpOK(t, u, t.row, IlDlLast(t), NN(a[1]), dr) /\ SameCursor(t, u)
       [] f = "Lf" -> ScrollUpOK(t, u, t.top, t.bottom, 1, dr)                       \* on the bottom margin
                      /\ u.row = t.row
                      /\ ((t.newline /\ u.col = 0 /\ ~u.pw)                                  \* silent: what the new-line mode adds to LF
                          \/ SameCursor(t, u) \/ (u.col = Min2(t.col, t.cols - 1) /\ ~u.pw))   \* silent: may a scrolling LF drop a pending wrap?
       [] f = "Nel" -> ScrollUpOK(t, u, t.top, t.bottom, 1, dr) /\ u.col = 0 /\ ~u.pw /\ u.row = t.row
       [] f = "Ri" -> ScrollDownOK(t, u, t.top, t.bottom, 1, dr)                     \* on the top margin
                      /\ (SameCursor(t, u) \/ (u.row = t.row /\ u.col = Min2(t.col, t.cols - 1) /\ ~u.pw))   \* silent: may a scrolling RI drop a pending wrap?

\* ------------------------------------------------------------------------ C04
(* One printable character.                                                      *)
PrintOK(t, ch, u, dr) ==
  LET g == Translate(IF t.gl = 0 THEN t.g0 ELSE t.g1, ch)
      cell == <<g, t.pen>>
      wrapDue == t.autowrap /\ Pending(t)
      scrolls == wrapDue /\ t.row = t.bottom
      moves == wrapDue /\ t.row # t.bottom /\ t.row < t.rows - 1
      lrow == IF moves THEN t.row + 1 ELSE t.row                       \* landing row (after a scroll: same index)
      scol == IF wrapDue THEN 0 ELSE t.col                             \* cursor column before writing
      lastCol == scol + 1 >= t.cols
      lcol == IF lastCol THEN t.cols - 1 ELSE scol                     \* landing column
      (* cells of the view before the character is written *)
      Base(r, k) == IF scrolls /\ r >= t.top /\ r <= t.bottom
                    THEN (IF r < t.bottom THEN VCell(t, r + 1, k) ELSE Blank(t.pen))
                    ELSE VCell(t, r, k)
      Want(r, k) == IF r # lrow THEN Base(r, k)
                    ELSE IF k = lcol THEN cell
                    ELSE IF t.insert /\ ~lastCol /\ k > lcol THEN Base(r, k - 1)     \* shifted right, last dropped
                    ELSE Base(r, k)
  IN /\ \A r \in 0..(t.rows - 1) : \A k \in 0..(t.cols - 1) : VCell(u, r, k) = Want(r, k)
     /\ u.row = lrow
     /\ (IF lastCol THEN (IF t.autowrap THEN u.col = t.cols /\ u.pw
                          ELSE u.col = (IF wrapDue THEN 0 ELSE t.col) /\ u.pw = (IF wrapDue THEN FALSE ELSE t.pw))
         ELSE u.col = scol + 1 /\ ~u.pw)
     (* wrap marks: the row left is marked when the cursor really moved on; rows   *)
     (* not involved keep theirs *)
     /\ (moves => VRow(u, t.row).w)
     /\ (scrolls /\ t.bottom = t.rows - 1 /\ t.top < t.bottom => VRow(u, t.row - 1).w)
     /\ (scrolls => /\ \A r \in t.top..(t.bottom - 2) : VRow(u, r).w = VRow(t, r + 1).w       \* moved rows keep their marks
                     /\ (lcol # t.cols - 1 \/ TRUE) /\ ~VRow(u, t.bottom).w)
     /\ \A r \in 0..(t.rows - 1) :
          (~(moves /\ r = t.row) /\ ~(scrolls /\ r >= t.top - 1 /\ r <= t.bottom)) => VRow(u, r).w = VRow(t, r).w
     /\ SbRelCells(t, u, IF scrolls THEN ScrolledOff(t, t.top, 1) ELSE <<>>, dr)
     /\ FrameExcept(t, u, {})
(* REP n = the character left of the cursor, n times, as if typed: every          *)
(* intermediate step must itself be a correct print.                             *)
RepOK(t, n, u) ==
  IF t.col = 0 THEN V(u) = V(t) /\ SameCursor(t, u)
  ELSE LET ch == VCell(t, t.row, t.col - 1)[1]
           F(acc, i) == LET nx0 == DoPrint(acc[1], ch)
                            nx  == [nx0 EXCEPT !.buf = Gc(@).b]          \* the lazy trim may run at any call boundary
                        IN <<nx, acc[2] /\ PrintOK(acc[1], ch, nx, Unread)>>
           r == FoldLeft(F, <<t, TRUE>>, Iota(NN(n)))
       IN r[2] /\ V(r[1]) = V(u) /\ <<r[1].col, r[1].row, r[1].pw>> = <<u.col, u.row, u.pw>> /\ FrameExcept(t, u, {})
CharsetOK(t, fn, u, dr) ==
  /\ (fn.f = "So" => u.gl = 1) /\ (fn.f = "Si" => u.gl = 0)
  /\ (fn.f = "Gzd4" => u.g0 = fn.a[1]) /\ (fn.f = "G1d4" => u.g1 = fn.a[1])
  /\ SameView(t, u) /\ SbSame(t, u, dr) /\ SameCursor(t, u)
  /\ FrameExcept(t, u, CASE fn.f \in {"So", "Si"} -> {"gl"} [] fn.f = "Gzd4" -> {"g0"} [] OTHER -> {"g1"})

\* ------------------------------------------------------------------------ C07
(* The expected cells and mark of the cursor row for the single-row commands.    *)
EditRowOK(t, fn, u) ==
  LET f == fn.f  a == fn.a  r == t.row  c == t.col  W == t.cols
      old(k) == VCell(t, r, k)  new(k) == VCell(u, r, k)  b == Blank(t.pen) IN
  CASE f = "Ich" -> LET n == Min2(NN(a[1]), W - c) IN
                    /\ \A k \in 0..(W - 1) : new(k) = (IF k < c THEN old(k) ELSE IF k < c + n THEN b ELSE old(k - n))
                    /\ VRow(u, r).w = VRow(t, r).w /\ SameCursor(t, u)
    [] f = "Dch" -> LET c0 == Min2(c, W - 1)  n == Min2(NN(a[1]), W - c0) IN
                    /\ \A k \in 0..(W - 1) : new(k) = (IF k < c0 THEN old(k) ELSE IF k < W - n THEN old(k + n) ELSE b)
                    /\ ~VRow(u, r).w
                    /\ u.row = t.row /\ u.col = c0 /\ (IF c >= W THEN ~u.pw ELSE u.pw = t.pw)
    [] f = "Ech" -> LET n == Min2(NN(a[1]), W - c) IN
                    /\ \A k \in 0..(W - 1) : new(k) = (IF k >= c /\ k < c + n THEN b ELSE old(k))
                    /\ (IF c + n = W /\ n > 0 THEN ~VRow(u, r).w ELSE n > 0 => VRow(u, r).w = VRow(t, r).w)
                    /\ SameCursor(t, u)
    [] f = "El" -> /\ \A k \in 0..(W - 1) :
                        new(k) = (IF (a[1] = 0 /\ k >= c) \/ (a[1] = 1 /\ k <= c) \/ a[1] = 2 THEN b ELSE old(k))
                   /\ (IF a[1] = 2 \/ (a[1] = 0 /\ c < W) THEN ~VRow(u, r).w
                       ELSE IF a[1] = 1 THEN c < W - 1 => VRow(u, r).w = VRow(t, r).w
                       ELSE TRUE)                                   \* EL 0 in the wrap-pending column erases nothing: free
                   /\ SameCursor(t, u)
EditOK(t, fn, u, dr) ==
  LET f == fn.f  a == fn.a IN
  /\ FrameExcept(t, u, {}) /\ SbSame(t, u, dr)
  /\ CASE f \in {"Ich", "Dch", "Ech", "El"} -> EditRowOK(t, fn, u) /\ SameRowsExcept(t, u, {t.row})
       [] f = "Ed" ->
            /\ SameCursor(t, u)
            /\ IF a[1] = 0 THEN /\ EditRowOK(t, [f |-> "El", a |-> <<0>>], u)
                                /\ \A r \in 0..(t.rows - 1) : IF r > t.row THEN VRow(u, r) = BlankLine(t.cols, t.pen)
                                                              ELSE r = t.row \/ VRow(u, r) = VRow(t, r)
               ELSE IF a[1] = 1 THEN /\ EditRowOK(t, [f |-> "El", a |-> <<1>>], u)
                                     /\ \A r \in 0..(t.rows - 1) : IF r < t.row THEN VRow(u, r) = BlankLine(t.cols, t.pen)
                                                                   ELSE r = t.row \/ VRow(u, r) = VRow(t, r)
               ELSE IF a[1] = 2 THEN \A r \in 0..(t.rows - 1) : VRow(u, r) = BlankLine(t.cols, t.pen)
               ELSE SameView(t, u)
       [] f = "Decaln" ->
            /\ SameCursor(t, u)
            /\ \A r \in 0..(t.rows - 1) : VRow(u, r).c = Rep(<<69, DefaultPen>>, t.cols)

\* ------------------------------------------------------------------------ C08
(* the pen after one SGR sequence, attribute by attribute: each attribute is     *)
(* decided by the LAST operation that concerns it (independence)                 *)
SgrFinal(p, ops) ==
  LET n == Len(ops)
      LastIdx(S) == IF \E i \in 1..n : ops[i][1] \in S THEN CHOOSE i \in 1..n : ops[i][1] \in S /\ \A j \in (i + 1)..n : ops[j][1] \notin S ELSE 0
      Attr(m, set, clr) == LET i == LastIdx({0, set, clr}) IN
                           IF i = 0 THEN HasBit(p[4], m) ELSE ops[i][1] = set
      fgI == LastIdx({0, 38, 39})  bgI == LastIdx({0, 48, 49})  inI == LastIdx({0, 1, 2, 22})
      B(x, m) == IF x THEN m ELSE 0
  IN << IF fgI = 0 THEN p[1] ELSE IF ops[fgI][1] = 38 THEN ops[fgI][2] ELSE -1,
        IF bgI = 0 THEN p[2] ELSE IF ops[bgI][1] = 48 THEN ops[bgI][2] ELSE -1,
        IF inI = 0 THEN p[3] ELSE IF ops[inI][1] \in {1, 2} THEN ops[inI][1] ELSE 0,
        B(Attr(ITALIC, 3, 23), ITALIC) + B(Attr(UNDERLINE, 4, 24), UNDERLINE) + B(Attr(STRIKE, 9, 29), STRIKE)
          + B(Attr(BLINK, 5, 25), BLINK) + B(Attr(INVERSE, 7, 27), INVERSE) >>
SgrOK(t, fn, u, dr) ==
  /\ u.pen = SgrFinal(t.pen, fn.a)
  /\ SameView(t, u) /\ SbSame(t, u, dr) /\ SameCursor(t, u) /\ FrameExcept(t, u, {"pen"})

\* ------------------------------------------------------------------------ C18
TabSetOf(t) == {t.tabs[i] : i \in 1..Len(t.tabs)}
TabEditOK(t, fn, u, dr) ==
  LET S == TabSetOf(t)
      want == CASE fn.f = "Hts" \/ (fn.f = "Ctc" /\ fn.a[1] = 0) -> (IF 0 < t.col /\ t.col < t.cols THEN S \cup {t.col} ELSE S)
                [] (fn.f = "Ctc" /\ fn.a[1] = 2) \/ (fn.f = "Tbc" /\ fn.a[1] = 0) -> S \ {t.col}
                [] OTHER -> {}
  IN /\ TabSetOf(u) = want /\ Len(u.tabs) = Cardinality(want)
     /\ \A i \in 1..(Len(u.tabs) - 1) : u.tabs[i] < u.tabs[i + 1]
     /\ SameView(t, u) /\ SbSame(t, u, dr) /\ SameCursor(t, u) /\ FrameExcept(t, u, {"tabs"})
(* resize: stops in the columns that disappear are discarded, the default        *)
(* every-8th-column stops appear in the newly exposed columns                    *)
TabsResizeOK(t, u) ==
  TabSetOf(u) = {s \in TabSetOf(t) : s < u.cols} \cup {s \in t.cols..(u.cols - 1) : (s % 8) = 0 /\ s > 0}

\* ------------------------------------------------------------------------ C17
CtxOf(t) == [col |-> Min2(t.col, t.cols - 1), row |-> t.row, pen |-> t.pen, origin |-> t.origin, autowrap |-> t.autowrap]
SaveOK(t, u, dr) ==
  /\ u.saved = CtxOf(t)
  /\ SameView(t, u) /\ SbSame(t, u, dr) /\ SameCursor(t, u) /\ FrameExcept(t, u, {"saved"})
RestoreOK(t, u, dr) ==
  /\ <<u.col, u.row, u.pen, u.origin, u.autowrap>> = <<t.saved.col, t.saved.row, t.saved.pen, t.saved.origin, t.saved.autowrap>>
  /\ ~u.pw /\ u.col < u.cols /\ u.row < u.rows
  /\ SameView(t, u) /\ SbSame(t, u, dr) /\ FrameExcept(t, u, {"pen", "origin", "autowrap"})

\* ------------------------------------------------------------------------ C20
(* a call that must be inert: nothing but the parser may change                   *)
InertOK(t, u, ch, dr) == u = t /\ ch = <<>> /\ (~dr.known \/ dr.lines = <<>>)

\* ------------------------------------------------------------------ dispatcher
(* Which listed property judges a one-function call, and its verdict.            *)
StepProp(t, fn) ==
  LET f == fn.f IN
  CASE f \in {"Print", "Rep", "So", "Si", "Gzd4", "G1d4"} -> "C04"
    [] f \in PureCursorFns -> "C05"
    [] f \in {"Lf", "Nel", "Ri"} -> (IF IsScrollingStep(t, fn) THEN "C06" ELSE "C05")
    [] f \in {"Su", "Sd", "Il", "Dl"} -> "C06"
    [] f = "Decstbm" -> "C06"
    [] f \in {"Ed", "El", "Ech", "Ich", "Dch", "Decaln"} -> "C07"
    [] f = "Sgr" -> "C08"
    [] f \in {"Hts", "Ctc", "Tbc"} -> "C18"
    [] f \in {"Decsc", "Scosc", "Decrc", "Scorc"} -> "C17"
    [] f \in {"Decset", "Decrst"} /\ fn.a = <<6>> -> "C05"
    [] f \in {"Decset", "Decrst"} /\ fn.a = <<1048>> -> "C17"
    [] f = "Xtwinops" -> "C20"
    [] OTHER -> "none"
StepOK(t, fn, u, ch, dr) ==
  LET f == fn.f IN
  CASE f = "Print" -> PrintOK(t, fn.a[1], u, dr)
    [] f = "Rep" -> RepOK(t, fn.a[1], u)
    [] f \in {"So", "Si", "Gzd4", "G1d4"} -> CharsetOK(t, fn, u, dr)
    [] f \in PureCursorFns -> CursorMoveOK(t, fn, u, dr)
    [] f \in {"Lf", "Nel", "Ri"} -> (IF IsScrollingStep(t, fn) THEN ScrollFnOK(t, fn, u, dr) ELSE CursorMoveOK(t, fn, u, dr))
    [] f \in {"Su", "Sd", "Il", "Dl"} -> ScrollFnOK(t, fn, u, dr)
    [] f = "Decstbm" -> DecstbmOK(t, fn, u, dr)
    [] f \in {"Ed", "El", "Ech", "Ich", "Dch", "Decaln"} -> EditOK(t, fn, u, dr)
    [] f = "Sgr" -> SgrOK(t, fn, u, dr)
    [] f \in {"Hts", "Ctc", "Tbc"} -> TabEditOK(t, fn, u, dr)
    [] f \in {"Decsc", "Scosc"} -> SaveOK(t, u, dr)
    [] f \in {"Decrc", "Scorc"} -> RestoreOK(t, u, dr)
    [] f = "Decset" /\ fn.a = <<6>> -> DecomOK(t, TRUE, u, dr)
    [] f = "Decrst" /\ fn.a = <<6>> -> DecomOK(t, FALSE, u, dr)
    [] f = "Decset" /\ fn.a = <<1048>> -> SaveOK(t, u, dr)
    [] f = "Decrst" /\ fn.a = <<1048>> -> RestoreOK(t, u, dr)
    [] f = "Xtwinops" -> InertOK(t, u, ch, dr)
    [] OTHER -> TRUE
=============================================================================
