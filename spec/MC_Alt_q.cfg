SPECIFICATION Spec
INVARIANT AllOK
VIEW McView
CHECK_DEADLOCK FALSE
CONSTANTS
  Sizes <- AltSizes
  Limits <- LimMix
  Fills <- AltFills
  Alphabet <- AltAlphabet
  Resizes <- AltResizes
  MaxDepth = 3
  Emit = TRUE
  CheckDump = FALSE
  ExcuseKnown = TRUE
