SPECIFICATION Spec
INVARIANT AllOK
VIEW McView
CHECK_DEADLOCK FALSE
CONSTANTS
  Sizes <- AltSizes
  Limits <- LimMix
  Fills <- AltFills
  Alphabet <- AltLeanAlphabet
  Resizes <- AltResizes
  MaxDepth = 4
  Emit = TRUE
  CheckDump = FALSE
  ExcuseKnown = TRUE
