SPECIFICATION Spec
INVARIANT AllOK
VIEW McView
CHECK_DEADLOCK FALSE
CONSTANTS
  Sizes <- SgrBlankSizes
  Limits <- Lim01
  Fills <- NoFill
  Alphabet <- SgrBlankAlphabet
  Resizes <- NoResize
  MaxDepth = 4
  Emit = TRUE
  CheckDump = FALSE
  ExcuseKnown = TRUE
