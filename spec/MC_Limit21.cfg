SPECIFICATION Spec
INVARIANT AllOK
VIEW LView
CHECK_DEADLOCK FALSE
CONSTANTS
  Sizes <- OneRow
  Limits <- Twenty
  Alphabet <- LfOnly
  MaxDepth = 48
  Emit = TRUE
