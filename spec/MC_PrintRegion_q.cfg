SPECIFICATION Spec
INVARIANT AllOK
VIEW McView
CHECK_DEADLOCK FALSE
CONSTANTS
  Sizes <- PrintRegionSizes
  Limits <- Lim0
  Fills <- NoFill
  Alphabet <- PrintRegionAlphabet
  Resizes <- NoResize
  MaxDepth = 5
  Emit = TRUE
  CheckDump = FALSE
  ExcuseKnown = TRUE
