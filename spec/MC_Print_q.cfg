SPECIFICATION Spec
INVARIANT AllOK
VIEW McView
CHECK_DEADLOCK FALSE
CONSTANTS
  Sizes <- PrintSizes
  Limits <- Lim0
  Fills <- NoFill
  Alphabet <- PrintAlphabet
  Resizes <- PrintResizes
  MaxDepth = 3
  Emit = TRUE
  CheckDump = FALSE
  ExcuseKnown = TRUE
