SPECIFICATION Spec
INVARIANT AllOK
VIEW McView
CHECK_DEADLOCK FALSE
CONSTANTS
  Sizes <- CtxSizes
  Limits <- Lim0
  Fills <- NoFill
  Alphabet <- CtxLeanAlphabet
  Resizes <- CtxLeanResizes
  MaxDepth = 6
  Emit = TRUE
  CheckDump = FALSE
  ExcuseKnown = TRUE
