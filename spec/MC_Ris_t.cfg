SPECIFICATION Spec
INVARIANT AllOK
VIEW McView
CHECK_DEADLOCK FALSE
CONSTANTS
  Sizes <- RisSizes
  Limits <- LimMix
  Fills <- NoFill
  Alphabet <- RisAlphabet
  Resizes <- RisResizes
  MaxDepth = 4
  Emit = TRUE
  CheckDump = FALSE
  ExcuseKnown = TRUE
