------------------------------- MODULE MCLimit -------------------------------
(* C13 / C14 on the specification: a terminal with scrollback limit L and one     *)
(* with unlimited scrollback are fed the same input in lock-step (every call's    *)
(* Changes consumed); after every call  Bound  holds for the limited one, and     *)
(* whenever both show the primary screen  drained \o lines(L) = lines(unlimited). *)
EXTENDS Props, Encode, Json, TLC

CONSTANTS Sizes, Limits, Alphabet(_), MaxDepth, Emit
VARIABLES a, b, dr, n, ok, hist
vars == <<a, b, dr, n, ok, hist>>
Behaviour(h, st, ch) == "@@ BEHAVIOUR " \o ToJson([init |-> h.init, ops |-> h.ops, st |-> st, ch |-> ch])

Init == \E sz \in Sizes, lim \in Limits :
          /\ a = Fresh(sz[1], sz[2], lim) /\ b = Fresh(sz[1], sz[2], -1)
          /\ dr = <<>> /\ n = 0 /\ ok = TRUE
          /\ hist = [init |-> <<sz[1], sz[2], lim>>, ops |-> <<>>]
Next ==
  /\ n < MaxDepth
  /\ \E fn \in Alphabet(a.t) :
       LET ra == FeedStr(a, Enc(fn))  rb == FeedStr(b, Enc(fn))  d2 == dr \o ra.dr
           h == [hist EXCEPT !.ops = Append(@, [k |-> "fs", s |-> Enc(fn)])] IN
       /\ a' = ra.vt /\ b' = rb.vt /\ dr' = d2 /\ n' = n + 1
       /\ hist' = h
       /\ Emit => PrintT(Behaviour(h, ra.vt, ra.ch))
       /\ ok' = (/\ ok
                 /\ Bound(ra.vt)
                 /\ rb.dr = <<>>
                 /\ ra.vt.t.alt = rb.vt.t.alt
                 /\ (~ra.vt.t.alt => NoLoss(d2, ra.vt, rb.vt))
                 /\ View(ra.vt.t.buf) = View(rb.vt.t.buf))
Spec == Init /\ [][Next]_vars
AllOK == ok
LView == <<a, b, dr, ok>>
LimitAlphabet(t) ==
  {F0("Lf"), F1("Print", 97), F1("Print", 98), F2("Cup", 1, 1), F1("Dl", 1), F1("Su", 2), F0("Ri"), F1("Il", 1),
   F2("Decstbm", 1, t.rows - 1), F2("Decstbm", 0, 0), FS("Decset", <<1047>>), FS("Decrst", <<1047>>), FS("Decset", <<1049>>), FS("Decrst", <<1049>>)}
LimitSizes == {<<1, 1>>, <<2, 2>>, <<1, 3>>}
LimitLimits == {0, 1, 2}
LfAlphabet(t) == {F0("Lf"), F1("Print", 97)}
OneRow == {<<1, 1>>}
Eleven == {11, 10}
LfOnly(t) == {F0("Lf")}
Twenty == {20, 21, 40}          \* from 20 on there are sizes strictly between the soft and the hard limit
=============================================================================
