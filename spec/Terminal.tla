------------------------------ MODULE Terminal ------------------------------
(* terminal.rs (+ tabs.rs, dirty_lines.rs, cursor.rs): the terminal proper.    *)
(* One operator per code-level function, named as in the Rust source.          *)
(*                                                                            *)
(*   Ctx  = [col, row, pen, origin, autowrap]                                  *)
(*   Term = [cols, rows, buf, other, alt, lim, col, row, vis, pen, g0, g1, gl, *)
(*           tabs, insert, origin, autowrap, newline, ckm, pw, top, bottom,    *)
(*           saved, asaved, dirty]                                             *)
(* buf is the ACTIVE buffer, other the parked one (which keeps stale geometry  *)
(* across resizes: InactiveBufferKeepsStaleGeometry); saved is the ACTIVE      *)
(* screen's saved context, asaved the parked screen's.                         *)
(*                                                                            *)
(* The three behaviours repaired by `fix:` commits are specified in their      *)
(* repaired form (RiIgnoresOrigin, ExpandKeepsFirstNewStop, RisResetsCkm).     *)
EXTENDS Buffer

\* ------------------------------------------------------------------- tabs.rs
NewTabs(cols) == SelectSeq(Iota0(cols), LAMBDA t : t >= 8 /\ (t % 8) = 0)
TabSet(tabs, pos) == IF \E i \in 1..Len(tabs) : tabs[i] = pos THEN tabs
                     ELSE SelectSeq(tabs, LAMBDA t : t < pos) \o <<pos>> \o SelectSeq(tabs, LAMBDA t : t > pos)
TabUnset(tabs, pos) == SelectSeq(tabs, LAMBDA t : t # pos)
TabExpand(tabs, start0, end) ==                                \* ExpandKeepsFirstNewStop (repaired)
  LET start == IF (start0 % 8) = 0 THEN start0 ELSE start0 + 8 - (start0 % 8)
  IN tabs \o SelectSeq([i \in 1..Max2(end - start, 0) |-> start + i - 1], LAMBDA t : ((t - start) % 8) = 0)
TabContract(tabs, pos) == SelectSeq(tabs, LAMBDA t : t < pos)
TabAfter(tabs, pos, n) == LET s == SelectSeq(tabs, LAMBDA t : t > pos) IN IF Len(s) >= n THEN s[n] ELSE -1
TabBefore(tabs, pos, n) == LET s == SelectSeq(tabs, LAMBDA t : t < pos) IN IF Len(s) >= n THEN s[Len(s) - n + 1] ELSE -1

\* --------------------------------------------------------------- construction
DefCtx == [col |-> 0, row |-> 0, pen |-> DefaultPen, origin |-> FALSE, autowrap |-> TRUE]
NewTerm(cols, rows, lim) ==
  [cols |-> cols, rows |-> rows,
   buf |-> NewBuf(cols, rows, lim, DefaultPen), other |-> NewBuf(cols, rows, 0, DefaultPen),   \* AltScreenAlwaysLimitZero
   alt |-> FALSE, lim |-> lim, col |-> 0, row |-> 0, vis |-> TRUE, pen |-> DefaultPen,
   g0 |-> 0, g1 |-> 0, gl |-> 0, tabs |-> NewTabs(cols),
   insert |-> FALSE, origin |-> FALSE, autowrap |-> TRUE, newline |-> FALSE, ckm |-> FALSE, pw |-> FALSE,
   top |-> 0, bottom |-> rows - 1, saved |-> DefCtx, asaved |-> DefCtx, dirty |-> Rep(TRUE, rows)]

\* ---------------------------------------------------------------- dirty lines
D1(t, r) == [t EXCEPT !.dirty[r + 1] = TRUE]                                  \* DirtyLines::add
DR(t, a, e) == [t EXCEPT !.dirty = [i \in 1..Len(@) |-> IF i - 1 >= a /\ i - 1 < e THEN TRUE ELSE @[i]]]  \* extend

\* ------------------------------------------------------------- cursor helpers
N(v, d) == IF v = 0 THEN d ELSE v                                             \* as_usize
ToCol(t, c) == [t EXCEPT !.col = c, !.pw = FALSE]                             \* do_move_cursor_to_col
MoveToCol(t, c) == ToCol(t, IF c >= t.cols THEN t.cols - 1 ELSE c)            \* move_cursor_to_col
ToRow(t, r) == [t EXCEPT !.col = Min2(@, t.cols - 1), !.row = r, !.pw = FALSE]   \* do_move_cursor_to_row
ATop(t) == IF t.origin THEN t.top ELSE 0                                      \* actual_top_margin
ABot(t) == IF t.origin THEN t.bottom ELSE t.rows - 1                          \* actual_bottom_margin
MoveToRow(t, r) == ToRow(t, Min2(Max2(ATop(t) + r, ATop(t)), ABot(t)))        \* move_cursor_to_row
RelCol(t, d) == LET nc == t.col + d IN                                        \* move_cursor_to_rel_col
  IF nc < 0 THEN ToCol(t, 0) ELSE IF nc >= t.cols THEN ToCol(t, t.cols - 1) ELSE ToCol(t, nc)
Home(t) == LET a == ToCol(t, 0) IN ToRow(a, ATop(a))                          \* move_cursor_home
ScrollUpRegion(t, n) == DR([t EXCEPT !.buf = ScrollUp(@, t.top, t.bottom + 1, n, t.pen)], t.top, t.bottom + 1)
ScrollDownRegion(t, n) == DR([t EXCEPT !.buf = ScrollDown(@, t.top, t.bottom + 1, n, t.pen)], t.top, t.bottom + 1)
DownWithScroll(t) ==                                                          \* move_cursor_down_with_scroll
  IF t.row = t.bottom THEN ScrollUpRegion(t, 1)                               \* ScrollingLfKeepsPendingWrap
  ELSE IF t.row < t.rows - 1 THEN ToRow(t, t.row + 1) ELSE t
CursorDown(t, n) == ToRow(t, IF t.row > t.bottom THEN Min2(t.rows - 1, t.row + n) ELSE Min2(t.bottom, t.row + n))
CursorUp(t, n) == ToRow(t, IF t.row < t.top THEN Max2(t.row - n, 0) ELSE Max2(t.row - n, t.top))
NextTab(t, n) == LET x == TabAfter(t.tabs, t.col, n) IN MoveToCol(t, IF x < 0 THEN t.cols - 1 ELSE x)
PrevTab(t, n) == LET x == TabBefore(t.tabs, t.col, n) IN MoveToCol(t, IF x < 0 THEN 0 ELSE x)
SetTab(t) == IF 0 < t.col /\ t.col < t.cols THEN [t EXCEPT !.tabs = TabSet(@, t.col)] ELSE t
ClearTab(t) == [t EXCEPT !.tabs = TabUnset(@, t.col)]
ClearAllTabs(t) == [t EXCEPT !.tabs = <<>>]

\* ---------------------------------------------------------------------- print
DoPrint(t, ch0) ==
  LET ch   == Translate(IF t.gl = 0 THEN t.g0 ELSE t.g1, ch0)
      cell == MkCell(ch, t.pen)
      t1 == IF t.autowrap /\ t.pw
            THEN LET a == ToCol(t, 0) IN
                 IF a.row = a.bottom THEN ScrollUpRegion([a EXCEPT !.buf = SetW(@, a.row, TRUE)], 1)
                 ELSE IF a.row < a.rows - 1 THEN ToRow([a EXCEPT !.buf = SetW(@, a.row, TRUE)], a.row + 1)
                 ELSE a
            ELSE t
      nx == t1.col + 1
      t2 == IF nx >= t1.cols
            THEN LET b == [t1 EXCEPT !.buf = SetCell(@, t1.cols - 1, t1.row, cell)] IN
                 IF b.autowrap THEN [b EXCEPT !.col = b.cols, !.pw = TRUE] ELSE b
            ELSE ToCol([t1 EXCEPT !.buf = IF t1.insert THEN BufInsert(@, t1.col, t1.row, 1, cell)
                                          ELSE SetCell(@, t1.col, t1.row, cell)], nx)
  IN D1(t2, t2.row)
RepN(t, ch, n) == FoldLeft(LAMBDA x, i : DoPrint(x, ch), t, Iota(n))

\* --------------------------------------------------- saved context, switching
SaveCursor(t) ==
  [t EXCEPT !.saved = [col |-> Min2(t.col, t.cols - 1), row |-> t.row, pen |-> t.pen,
                       origin |-> t.origin, autowrap |-> t.autowrap]]
RestoreCursor(t) ==
  [t EXCEPT !.col = t.saved.col, !.row = t.saved.row, !.pen = t.saved.pen,
            !.origin = t.saved.origin, !.autowrap = t.saved.autowrap, !.pw = FALSE]

(* Terminal::reflow: bring the ACTIVE buffer to the terminal's geometry.       *)
TReflow(t) ==
  LET res == BufResize(t.buf.lines, t.buf.cols, t.buf.rows, t.cols, t.rows, t.col, t.row) IN
  [t EXCEPT !.pw = IF t.cols # t.buf.cols THEN FALSE ELSE @,
            !.buf = [@ EXCEPT !.lines = res.lines, !.cols = t.cols, !.rows = t.rows, !.trim = TRUE],
            !.col = res.col, !.row = res.row,
            !.dirty = Rep(TRUE, t.rows),
            !.saved = [@ EXCEPT !.col = Min2(@, t.cols - 1), !.row = Min2(@, t.rows - 1)]]  \* InactiveSavedCtxClampedOnActivation
SwitchToAlternate(t) ==
  IF t.alt THEN t ELSE
  DR([t EXCEPT !.alt = TRUE, !.saved = t.asaved, !.asaved = t.saved, !.other = t.buf,
               !.buf = NewBuf(t.cols, t.rows, 0, t.pen)], 0, t.rows)
SwitchToPrimary(t) ==
  IF ~t.alt THEN t ELSE
  DR([t EXCEPT !.alt = FALSE, !.saved = t.asaved, !.asaved = t.saved, !.other = t.buf, !.buf = t.other], 0, t.rows)

SoftReset(t) ==
  [t EXCEPT !.vis = TRUE, !.top = 0, !.bottom = t.rows - 1, !.insert = FALSE, !.origin = FALSE,
            !.pen = DefaultPen, !.g0 = 0, !.g1 = 0, !.gl = 0, !.saved = DefCtx]
HardReset(t) == NewTerm(t.cols, t.rows, t.lim)                                \* RisResetsCkm (repaired)

(* Terminal::resize                                                             *)
TResize(t, c, r) ==
  LET tb == IF c < t.cols THEN TabContract(t.tabs, c) ELSE IF c > t.cols THEN TabExpand(t.tabs, t.cols, c) ELSE t.tabs
      t1 == [t EXCEPT !.tabs = tb, !.top = IF r # t.rows THEN 0 ELSE @, !.bottom = IF r # t.rows THEN r - 1 ELSE @,
                      !.cols = c, !.rows = r]
  IN TReflow(t1)

\* ------------------------------------------------------- modes (one at a time)
SetDecMode(t, m) ==
  CASE m = 1 -> [t EXCEPT !.ckm = TRUE]
    [] m = 6 -> Home([t EXCEPT !.origin = TRUE])
    [] m = 7 -> [t EXCEPT !.autowrap = TRUE]
    [] m = 25 -> [t EXCEPT !.vis = TRUE]
    [] m = 1047 -> TReflow(SwitchToAlternate(t))
    [] m = 1048 -> SaveCursor(t)
    [] m = 1049 -> TReflow(SwitchToAlternate(SaveCursor(t)))
    [] OTHER -> t
ResetDecMode(t, m) ==
  CASE m = 1 -> [t EXCEPT !.ckm = FALSE]
    [] m = 6 -> Home([t EXCEPT !.origin = FALSE])
    [] m = 7 -> [t EXCEPT !.autowrap = FALSE]
    [] m = 25 -> [t EXCEPT !.vis = FALSE]
    [] m = 1047 -> TReflow(SwitchToPrimary(t))
    [] m = 1048 -> RestoreCursor(t)
    [] m = 1049 -> TReflow(RestoreCursor(SwitchToPrimary(t)))
    [] OTHER -> t
SetAnsiMode(t, m) == IF m = 4 THEN [t EXCEPT !.insert = TRUE] ELSE IF m = 20 THEN [t EXCEPT !.newline = TRUE] ELSE t
ResetAnsiMode(t, m) == IF m = 4 THEN [t EXCEPT !.insert = FALSE] ELSE IF m = 20 THEN [t EXCEPT !.newline = FALSE] ELSE t

IlDlEnd(t) == IF t.row <= t.bottom THEN t.bottom + 1 ELSE t.rows

\* ------------------------------------------------------------ Terminal::execute
Exec(t, fn) ==
  LET f == fn.f  a == fn.a IN
  CASE f = "None" -> t
    [] f = "Print" -> DoPrint(t, a[1])
    [] f = "Bs" -> RelCol(t, IF t.pw THEN -2 ELSE -1)
    [] f = "Cr" -> ToCol(t, 0)
    [] f = "Lf" -> LET x == DownWithScroll(t) IN IF x.newline THEN ToCol(x, 0) ELSE x
    [] f = "Nel" -> ToCol(DownWithScroll(t), 0)
    [] f = "Ri" -> IF t.row = t.top THEN ScrollDownRegion(t, 1)
                   ELSE IF t.row > 0 THEN ToRow(t, t.row - 1) ELSE t          \* RiIgnoresOrigin (repaired)
    [] f = "So" -> [t EXCEPT !.gl = 1]
    [] f = "Si" -> [t EXCEPT !.gl = 0]
    [] f = "Gzd4" -> [t EXCEPT !.g0 = a[1]]
    [] f = "G1d4" -> [t EXCEPT !.g1 = a[1]]
    [] f = "Ht" -> NextTab(t, 1)
    [] f = "Cht" -> NextTab(t, N(a[1], 1))
    [] f = "Cbt" -> PrevTab(t, N(a[1], 1))
    [] f = "Hts" -> SetTab(t)
    [] f = "Ctc" -> IF a[1] = 0 THEN SetTab(t) ELSE IF a[1] = 2 THEN ClearTab(t) ELSE ClearAllTabs(t)
    [] f = "Tbc" -> IF a[1] = 0 THEN ClearTab(t) ELSE ClearAllTabs(t)
    [] f = "Cuu" -> CursorUp(t, N(a[1], 1))
    [] f = "Cud" -> CursorDown(t, N(a[1], 1))
    [] f = "Vpr" -> CursorDown(t, N(a[1], 1))
    [] f = "Cuf" -> RelCol(t, N(a[1], 1))
    [] f = "Cub" -> RelCol(t, 0 - N(a[1], 1) - (IF t.pw THEN 1 ELSE 0))
    [] f = "Cnl" -> ToCol(CursorDown(t, N(a[1], 1)), 0)
    [] f = "Cpl" -> ToCol(CursorUp(t, N(a[1], 1)), 0)
    [] f = "Cha" -> MoveToCol(t, N(a[1], 1) - 1)
    [] f = "Vpa" -> MoveToRow(t, N(a[1], 1) - 1)
    [] f = "Cup" -> MoveToRow(MoveToCol(t, N(a[2], 1) - 1), N(a[1], 1) - 1)
    [] f = "Ich" -> D1([t EXCEPT !.buf = BufInsert(@, t.col, t.row, N(a[1], 1), BlankCell(t.pen))], t.row)
    [] f = "Dch" -> LET x == IF t.col >= t.cols THEN MoveToCol(t, t.cols - 1) ELSE t IN
                    D1([x EXCEPT !.buf = BufDelete(@, x.col, x.row, N(a[1], 1), x.pen)], x.row)
    [] f = "Ech" -> D1([t EXCEPT !.buf = EraseNextChars(@, t.col, t.row, N(a[1], 1), t.pen)], t.row)
    [] f = "El" -> D1([t EXCEPT !.buf = CASE a[1] = 0 -> EraseToEndOfLine(@, t.col, t.row, t.pen)
                                          [] a[1] = 1 -> EraseFromStartOfLine(@, t.col, t.row, t.pen)
                                          [] OTHER -> EraseWholeLine(@, t.row, t.pen)], t.row)
    [] f = "Ed" -> IF a[1] = 0 THEN DR([t EXCEPT !.buf = EraseToEndOfView(@, t.col, t.row, t.pen)], t.row, t.rows)
                   ELSE IF a[1] = 1 THEN DR([t EXCEPT !.buf = EraseFromStartOfView(@, t.col, t.row, t.pen)], 0, t.row + 1)
                   ELSE IF a[1] = 2 THEN DR([t EXCEPT !.buf = EraseWholeView(@, t.pen)], 0, t.rows)
                   ELSE t
    [] f = "Il" -> LET e == IlDlEnd(t) IN DR([t EXCEPT !.buf = ScrollDown(@, t.row, e, N(a[1], 1), t.pen)], t.row, e)
    [] f = "Dl" -> LET e == IlDlEnd(t) IN DR([t EXCEPT !.buf = ScrollUp(@, t.row, e, N(a[1], 1), t.pen)], t.row, e)
    [] f = "Su" -> ScrollUpRegion(t, N(a[1], 1))
    [] f = "Sd" -> ScrollDownRegion(t, N(a[1], 1))
    [] f = "Rep" -> IF t.col > 0 THEN RepN(t, CellAt(t.buf, t.col - 1, t.row)[1], N(a[1], 1)) ELSE t
    [] f = "Decaln" -> [t EXCEPT !.buf = MapView(@, LAMBDA r, ln : [ln EXCEPT !.c = Rep(MkCell(69, DefaultPen), t.cols)]),  \* DecalnKeepsWrapMarks
                                 !.dirty = Rep(TRUE, t.rows)]
    [] f = "Decstbm" -> LET tp == N(a[1], 1) - 1  bt == N(a[2], t.rows) - 1
                            x == IF tp < bt /\ bt < t.rows THEN [t EXCEPT !.top = tp, !.bottom = bt] ELSE t
                        IN Home(x)
    [] f = "Sm" -> FoldLeft(SetAnsiMode, t, a)
    [] f = "Rm" -> FoldLeft(ResetAnsiMode, t, a)
    [] f = "Decset" -> FoldLeft(SetDecMode, t, a)
    [] f = "Decrst" -> FoldLeft(ResetDecMode, t, a)
    [] f \in {"Decsc", "Scosc"} -> SaveCursor(t)
    [] f \in {"Decrc", "Scorc"} -> RestoreCursor(t)
    [] f = "Decstr" -> SoftReset(t)
    [] f = "Ris" -> HardReset(t)
    [] f = "Sgr" -> [t EXCEPT !.pen = ApplySgr(@, a)]
    [] f = "Xtwinops" -> t                                                    \* XtwinopsDisabled
    [] OTHER -> Assert(FALSE, <<"unknown function", fn>>)

\* ------------------------------------------------------------------ end of call
(* Terminal::changes then Terminal::gc: -> [t, ch, dr]                          *)
Changes(t) == SelectSeq(Iota0(Len(t.dirty)), LAMBDA i : t.dirty[i + 1])
EndCall(t) ==
  LET g == Gc(t.buf) IN
  [t |-> [t EXCEPT !.dirty = Rep(FALSE, Len(@)), !.buf = g.b],
   ch |-> Changes(t),
   dr |-> IF t.alt THEN <<>> ELSE g.drained]                                   \* GcTrimsActiveBufferOnly; alt lines dropped

\* --------------------------------------------------------------------- queries
PrimaryBuf(t) == IF t.alt THEN t.other ELSE t.buf
AlternateBuf(t) == IF t.alt THEN t.buf ELSE t.other
Text(t) == BufText(PrimaryBuf(t).lines)                                       \* Terminal::text
=============================================================================
