------------------------------- MODULE MCText --------------------------------
(* C09 on the specification, by enumeration of initial states: every text of at   *)
(* most MaxLines lines over {a, space} with lengths 0..MaxLineLen, at every       *)
(* width 1..MaxW and height 1..MaxH with unlimited scrollback:                    *)
(*   text() = the input lines (trailing spaces trimmed, trailing empties aside),  *)
(*   unwrapping lines() gives the same, and the result is the same at every width;*)
(* and (MidResize) the same still holds when the HEIGHT changes in the middle of  *)
(* the input, cut at every position (a width change in mid-line is not covered by *)
(* any statement: the position after the last character of a full row exists only *)
(* as a pending wrap, which a width change clears).                               *)
EXTENDS Props, TLC

CONSTANTS MaxLines, MaxLineLen, MaxW, MaxH, MidResize
VARIABLES txt, ok
vars == <<txt, ok>>

Chars == {97, 32}
LinesOfLen(k) == [1..k -> Chars]
AllLines == UNION {LinesOfLen(k) : k \in 0..MaxLineLen}
Texts == UNION {[1..m -> AllLines] : m \in 0..MaxLines}
Join(ls) == FoldLeft(LAMBDA acc, i : acc \o (IF i > 1 THEN <<13, 10>> ELSE <<>>) \o ls[i], <<>>, Iota(Len(ls)))
TextAt(ls, w, h) == FeedStr(Fresh(w, h, -1), Join(ls)).vt
TextProps(ls) ==
  \A w \in 1..MaxW, h \in 1..MaxH :
    LET v == TextAt(ls, w, h) IN
    /\ TextOK(Text(v.t), ls)
    /\ UnwrapOK(v, ls)
    /\ DropTrailingEmpty(Text(v.t)) = DropTrailingEmpty(Text(TextAt(ls, 1, 1).t))      \* the same at every width
(* the same when the screen is resized in the middle of the input: cut the input  *)
(* at every position, resize to every other size, feed the rest                    *)
TextResized(ls, w, h, k, w2, h2) ==
  LET inp == Join(ls)
      v1 == FeedStr(Fresh(w, h, -1), SubSeq(inp, 1, k)).vt
      v2 == ResizeCall(v1, w2, h2).vt
  IN FeedStr(v2, SubSeq(inp, k + 1, Len(inp))).vt
MidProps(ls) ==
  \A w \in 1..MaxW, h \in 1..MaxH, w2 \in 1..MaxW, h2 \in 1..MaxH, k \in 0..Len(Join(ls)) :
    (w2 # w) \/
    LET v == TextResized(ls, w, h, k, w2, h2) IN
    (TextOK(Text(v.t), ls) /\ UnwrapOK(v, ls)) \/ PrintT(<<"MID", ls, w, h, k, w2, h2, Text(v.t)>>) = FALSE
(* the texts are the initial states; the verdict is computed in one step, so that TLC's workers share the load *)
Init == txt \in Texts /\ ok = "todo"
Next == ok = "todo" /\ txt' = txt /\ ok' = (IF TextProps(txt) /\ (MidResize => MidProps(txt)) THEN "yes" ELSE "no")
Spec == Init /\ [][Next]_vars
AllOK == ok # "no"
=============================================================================
