------------------------------- MODULE MCText --------------------------------
(* C09 on the specification, by enumeration of initial states: every text of at   *)
(* most MaxLines lines over {a, space} with lengths 0..MaxLineLen, at every       *)
(* width 1..MaxW and height 1..MaxH with unlimited scrollback:                    *)
(*   text() = the input lines (trailing spaces trimmed, trailing empties aside),  *)
(*   unwrapping lines() gives the same, and the result is the same at every width.*)
EXTENDS Props, TLC

CONSTANTS MaxLines, MaxLineLen, MaxW, MaxH
VARIABLES txt, ok
vars == <<txt, ok>>

Chars == {97, 32}
LinesOfLen(k) == [1..k -> Chars]
AllLines == UNION {LinesOfLen(k) : k \in 0..MaxLineLen}
Texts == UNION {[1..m -> AllLines] : m \in 0..MaxLines}
Join(ls) == FoldLeft(LAMBDA acc, i : acc \o (IF i > 1 THEN <<13, 10>> ELSE <<>>) \o ls[i], <<>>, Iota(Len(ls)))
TextAt(ls, w, h) == FeedStr(Fresh(w, h, -1), Join(ls)).vt
TextProps(ls) ==
  \A w \in 1..MaxW, h \in 1..MaxH :
    LET v == TextAt(ls, w, h) IN
    /\ TextOK(Text(v.t), ls)
    /\ UnwrapOK(v, ls)
    /\ DropTrailingEmpty(Text(v.t)) = DropTrailingEmpty(Text(TextAt(ls, 1, 1).t))      \* the same at every width
Init == txt \in Texts /\ ok = TextProps(txt)
Next == FALSE /\ UNCHANGED vars
Spec == Init /\ [][Next]_vars
AllOK == ok
=============================================================================
