SPECIFICATION Spec
INVARIANT AllOK
VIEW McView
CHECK_DEADLOCK FALSE
CONSTANTS
  Sizes <- DumpSizesQ
  Limits <- Lim0
  Fills <- DumpFills
  Alphabet <- DumpKnownAlphabet
  Resizes <- NoResize
  MaxDepth = 6
  Emit = FALSE
  CheckDump = TRUE
  ExcuseKnown = FALSE
