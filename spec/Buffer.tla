------------------------------- MODULE Buffer -------------------------------
(* buffer.rs: one screen buffer = scrollback followed by the visible rows.    *)
(*   Buf = [lines |-> Seq(Line), cols, rows, lim, trim]                        *)
(* lim = -1 means "no scrollback limit"; otherwise the soft limit, and the     *)
(* hard limit is lim + lim \div 10.  trim mirrors `trim_needed`.               *)
EXTENDS Base

Hard(lim) == IF lim < 0 THEN -1 ELSE lim + (lim \div 10)
NewBuf(cols, rows, lim, pen) ==
  [lines |-> Rep(BlankLine(cols, pen), rows), cols |-> cols, rows |-> rows, lim |-> lim, trim |-> FALSE]

VI(b, r) == Sub(Len(b.lines), b.rows) + r + 1          \* index into lines of view row r (0-based)
Row(b, r) == b.lines[VI(b, r)]
View(b) == SubSeq(b.lines, VI(b, 0), Len(b.lines))
Scrollback(b) == SubSeq(b.lines, 1, Len(b.lines) - b.rows)
SetRow(b, r, ln) == [b EXCEPT !.lines[VI(b, r)] = ln]
SetW(b, r, w) == [b EXCEPT !.lines[VI(b, r)].w = w]                          \* Buffer::wrap & friends
SetCell(b, col, r, cell) == [b EXCEPT !.lines[VI(b, r)].c[col + 1] = cell]   \* Buffer::print
CellAt(b, col, r) == Row(b, r).c[col + 1]
MapView(b, G(_, _)) ==
  [b EXCEPT !.lines = [i \in 1..Len(@) |-> IF i >= VI(b, 0) THEN G(i - VI(b, 0), @[i]) ELSE @[i]]]
ClearRows(b, a, e, pen) == MapView(b, LAMBDA r, ln : IF r >= a /\ r < e THEN BlankLine(b.cols, pen) ELSE ln)

BufInsert(b, col, r, n0, cell) ==                                            \* Buffer::insert
  LET n == Min2(n0, Sub(b.cols, col)) IN [b EXCEPT !.lines[VI(b, r)].c = InsCells(@, col, n, cell)]
BufDelete(b, col, r, n0, pen) ==                                             \* Buffer::delete
  LET n == Min2(n0, Sub(b.cols, col)) IN
  [b EXCEPT !.lines[VI(b, r)] = [c |-> DelCells(@.c, col, n, pen), w |-> FALSE]]

(* Buffer::erase, one operator per EraseMode                                   *)
EraseNextChars(b, col, r, n0, pen) ==
  LET n == Min2(n0, Sub(b.cols, col))
      e == col + n
      ln == ClearCells(Row(b, r), col, e, pen)
  IN SetRow(b, r, IF e = b.cols THEN [ln EXCEPT !.w = FALSE] ELSE ln)   \* EchAtWrapColumnClearsMark: also for n = 0
EraseToEndOfLine(b, col, r, pen) == SetRow(b, r, [ClearCells(Row(b, r), col, b.cols, pen) EXCEPT !.w = FALSE])
EraseFromStartOfLine(b, col, r, pen) == SetRow(b, r, ClearCells(Row(b, r), 0, Min2(col + 1, b.cols), pen))  \* El1KeepsMark
EraseWholeLine(b, r, pen) == SetRow(b, r, [ClearCells(Row(b, r), 0, b.cols, pen) EXCEPT !.w = FALSE])
EraseToEndOfView(b, col, r, pen) == ClearRows(EraseToEndOfLine(b, col, r, pen), r + 1, b.rows, pen)
EraseFromStartOfView(b, col, r, pen) == ClearRows(EraseFromStartOfLine(b, col, r, pen), 0, r, pen)
EraseWholeView(b, pen) == ClearRows(b, 0, b.rows, pen)

(* Buffer::scroll_up(a..e, n, pen).  Three cases: whole view (append blank     *)
(* lines - the top rows become scrollback), a region starting at row 0 that    *)
(* stops short of the last row (insert blank lines below the region - the top  *)
(* rows become scrollback too), and a region not starting at row 0 (rotate).   *)
ScrollUp(b, a, e, n0, pen) ==
  LET n  == Min2(n0, e - a)
      b1 == IF e - 1 < b.rows - 1 THEN SetW(b, e - 1, FALSE) ELSE b     \* PartialRegionScrollClearsWrapMark
      b2 == IF a = 0
            THEN IF e = b.rows THEN [b1 EXCEPT !.lines = @ \o Rep(BlankLine(b.cols, pen), n)]
                 ELSE LET idx == Sub(Len(b1.lines), b1.rows) + e IN
                      [b1 EXCEPT !.lines = SubSeq(@, 1, idx) \o Rep(BlankLine(b.cols, pen), n) \o SubSeq(@, idx + 1, Len(@))]
            ELSE LET b3 == SetW(b1, a - 1, FALSE) IN
                 MapView(b3, LAMBDA r, ln : IF r >= a /\ r < e
                                            THEN (IF r + n < e THEN Row(b3, r + n) ELSE BlankLine(b.cols, pen))
                                            ELSE ln)
  IN [b2 EXCEPT !.trim = TRUE]

ScrollDown(b, a, e, n0, pen) ==                                              \* Buffer::scroll_down
  LET n  == Min2(n0, e - a)
      b1 == MapView(b, LAMBDA r, ln : IF r >= a /\ r < e
                                      THEN (IF r - n >= a THEN Row(b, r - n) ELSE BlankLine(b.cols, pen))
                                      ELSE ln)
      b2 == IF a > 0 THEN SetW(b1, a - 1, FALSE) ELSE b1
  IN SetW(b2, e - 1, FALSE)

(* Buffer::gc / trim_scrollback -> [b, drained]                                *)
Gc(b) ==
  IF ~b.trim THEN [b |-> b, drained |-> <<>>]
  ELSE LET sb == Sub(Len(b.lines), b.rows) IN
       IF b.lim >= 0 /\ sb > Hard(b.lim)
       THEN [b |-> [b EXCEPT !.trim = FALSE, !.lines = SubSeq(@, sb - b.lim + 1, Len(@))],
             drained |-> SubSeq(b.lines, 1, sb - b.lim)]
       ELSE [b |-> [b EXCEPT !.trim = FALSE], drained |-> <<>>]

\* ------------------------------------------------------------------- reflow
(* The Reflow iterator of buffer.rs as a loop with the `rest` slot explicit.   *)
(* State of the loop: [i (next input index), rest, out, go].                   *)
ReflowStep(in, cols, s) ==
  LET hasRest == s.rest # NoLine IN
  IF ~hasRest /\ s.i > Len(in) THEN [s EXCEPT !.go = FALSE]
  ELSE LET line == IF hasRest THEN s.rest ELSE in[s.i]
           j    == IF hasRest THEN s.i ELSE s.i + 1
       IN IF cols < Len(line.c)
          THEN LET c == Contract(line, cols) IN [i |-> j, rest |-> c.rest, out |-> Append(s.out, c.line), go |-> TRUE]
          ELSE IF cols = Len(line.c) THEN [i |-> j, rest |-> NoLine, out |-> Append(s.out, line), go |-> TRUE]
          ELSE IF j > Len(in)
               THEN [i |-> j, rest |-> NoLine, out |-> Append(s.out, [c |-> ExpandCells(line.c, cols), w |-> FALSE]), go |-> TRUE]
               ELSE LET e == Extend(line, in[j], cols) IN
                    IF e.done THEN [i |-> j + 1, rest |-> e.rest, out |-> Append(s.out, e.line), go |-> TRUE]
                    ELSE [i |-> j + 1, rest |-> e.line, out |-> s.out, go |-> TRUE]
RECURSIVE ReflowLoop(_, _, _)
ReflowLoop(in, cols, s) == IF s.go THEN ReflowLoop(in, cols, ReflowStep(in, cols, s)) ELSE s.out
Reflow(lines, cols) == ReflowLoop(lines, cols, [i |-> 1, rest |-> NoLine, out |-> <<>>, go |-> TRUE])

(* Buffer::logical_position -> <<offset in the logical line, logical line>>    *)
LogicalPosition(lines, col, row, cols, rows) ==
  LET off   == Sub(Len(lines), rows)
      abs   == row + off
      avail == Min2(abs, Len(lines))
      F(acc, k) == IF lines[k].w THEN <<acc[1] + cols, acc[2]>> ELSE <<0, acc[2] + 1>>
      r     == FoldLeft(F, <<0, abs - avail>>, Iota(avail))
  IN <<col + r[1], r[2]>>

(* Buffer::relative_position -> <<col, row relative to the view (may be < 0)>> *)
RECURSIVE Rp1(_, _, _, _), Rp2(_, _, _, _)
Rp1(lines, r, relrow, target) ==
  IF r < target /\ relrow < Len(lines) - 1
  THEN Rp1(lines, IF ~lines[relrow + 1].w THEN r + 1 ELSE r, relrow + 1, target) ELSE relrow
Rp2(lines, relcol, relrow, cols) ==
  IF relcol >= cols /\ lines[relrow + 1].w THEN Rp2(lines, relcol - cols, relrow + 1, cols)
  ELSE <<relcol, relrow>>
RelativePosition(lines, logcol, logrow, cols, rows) ==
  LET r2 == Rp2(lines, logcol, Rp1(lines, 0, 0, logrow), cols)
  IN <<Min2(r2[1], cols - 1), r2[2] - Sub(Len(lines), rows)>>

(* Buffer::resize -> [lines, col, row]                                          *)
BufResize(lines0, oldCols, oldRows0, newCols, newRows, col0, row0) ==
  LET lp == LogicalPosition(lines0, col0, row0, oldCols, oldRows0)
      a  == IF newCols # oldCols
            THEN LET l1 == Reflow(lines0, newCols)
                     l2 == IF Len(l1) < oldRows0 THEN l1 \o Rep(BlankLine(newCols, DefaultPen), oldRows0 - Len(l1)) ELSE l1
                     rp == RelativePosition(l2, lp[1], lp[2], newCols, oldRows0)
                 IN IF rp[2] >= 0 THEN [lines |-> l2, col |-> rp[1], row |-> rp[2], oldRows |-> oldRows0]
                    ELSE [lines |-> l2, col |-> rp[1], row |-> 0, oldRows |-> oldRows0 + (0 - rp[2])]
            ELSE [lines |-> lines0, col |-> col0, row |-> row0, oldRows |-> oldRows0]
      n  == Len(a.lines)
  IN IF newRows < a.oldRows
     THEN LET delta  == a.oldRows - newRows
              excess == Min2(delta, Sub(Sub(a.oldRows, 1), a.row))
              l3     == IF excess > 0
                        THEN LET t == SubSeq(a.lines, 1, Sub(n, excess)) IN [t EXCEPT ![Len(t)].w = FALSE]
                        ELSE a.lines
          IN [lines |-> l3, col |-> a.col, row |-> Sub(a.row, delta - excess)]
     ELSE IF newRows > a.oldRows
     THEN LET delta0 == newRows - a.oldRows
              shift  == Min2(Sub(n, Min2(a.oldRows, n)), delta0)
              delta  == delta0 - shift
          IN [lines |-> IF delta > 0 THEN a.lines \o Rep(BlankLine(newCols, DefaultPen), delta) ELSE a.lines,
              col |-> a.col, row |-> IF a.row < a.oldRows THEN a.row + shift ELSE a.row]
     ELSE [lines |-> a.lines, col |-> a.col, row |-> a.row]

\* --------------------------------------------------------------------- text
(* Buffer::text: join rows along wrap marks, trim_end every logical line, keep *)
(* a trailing unfinished line unless it is empty.  Strings are code-point seqs. *)
BufText(lines) ==
  LET F(acc, k) == LET cur == acc[2] \o LineText(lines[k]) IN
                   IF ~lines[k].w THEN <<Append(acc[1], TrimEnd(cur)), <<>>>> ELSE <<acc[1], cur>>
      r == FoldLeft(F, <<<<>>, <<>>>>, Iota(Len(lines)))
  IN IF r[2] # <<>> THEN Append(r[1], TrimEnd(r[2])) ELSE r[1]

(* util::TextUnwrapper folded over a sequence of lines, starting from carry    *)
(* `carry`: -> [out |-> finished strings, carry |-> unfinished prefix]          *)
Unwrap(lines, carry) ==
  LET F(acc, k) == IF lines[k].w THEN [out |-> acc.out, carry |-> acc.carry \o LineText(lines[k])]
                   ELSE [out |-> Append(acc.out, acc.carry \o TrimEnd(LineText(lines[k]))), carry |-> <<>>]
  IN FoldLeft(F, [out |-> <<>>, carry |-> carry], Iota(Len(lines)))
DropTrailingEmpty(ss) ==
  LET n == Len(ss)
      F(acc, k) == IF acc[2] /\ ss[n - k + 1] = <<>> THEN <<acc[1] + 1, TRUE>> ELSE <<acc[1], FALSE>>
  IN SubSeq(ss, 1, n - FoldLeft(F, <<0, TRUE>>, Iota(n))[1])
(* util::TextCollector::flush given the carry left by the drained lines        *)
CollectorFlush(lines, carry) ==
  LET u == Unwrap(lines, carry) IN
  DropTrailingEmpty(IF u.carry # <<>> THEN Append(u.out, u.carry) ELSE u.out)
=============================================================================
