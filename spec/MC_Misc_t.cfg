SPECIFICATION Spec
INVARIANT AllOK
VIEW McView
CHECK_DEADLOCK FALSE
CONSTANTS
  Sizes <- MiscSizes
  Limits <- LimMix
  Fills <- NoFill
  Alphabet <- MiscAlphabet
  Resizes <- MiscResizes
  MaxDepth = 3
  Emit = TRUE
  CheckDump = FALSE
  ExcuseKnown = TRUE
