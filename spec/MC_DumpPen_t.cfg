SPECIFICATION Spec
INVARIANT AllOK
VIEW McView
CHECK_DEADLOCK FALSE
CONSTANTS
  Sizes <- DumpPenSizes
  Limits <- Lim0
  Fills <- NoFill
  Alphabet <- DumpPenAlphabet
  Resizes <- NoResize
  MaxDepth = 4
  Emit = TRUE
  CheckDump = TRUE
  ExcuseKnown = TRUE
