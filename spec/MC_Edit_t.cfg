SPECIFICATION Spec
INVARIANT AllOK
VIEW McView
CHECK_DEADLOCK FALSE
CONSTANTS
  Sizes <- EditSizes
  Limits <- LimMix
  Fills <- EditFills
  Alphabet <- EditAlphabet
  Resizes <- PrintResizes
  MaxDepth = 4
  Emit = TRUE
  CheckDump = FALSE
  ExcuseKnown = TRUE
