------------------------------- MODULE Props --------------------------------
(* The listed properties C01..C20 written declaratively - from the property    *)
(* statements, not from the code.  (S) = Vt.tla says HOW the state changes;    *)
(* these predicates say WHAT must be true of any change.  They are evaluated   *)
(* by TLC on every transition of the bounded models (MC*.tla) and on every     *)
(* step of the implementation's recorded behaviour (Trace.tla).                *)
EXTENDS Vt, FiniteSets

\* ------------------------------------------------------------------ ownership
(* Which properties fix the behaviour of a function (DESIGN.md section 5).  A  *)
(* conformance failure in a step is a violation only for an owner.             *)
DecModeOwner(m) ==
  CASE m = 6 -> {"C05"} [] m = 7 -> {"C04"} [] m = 1047 -> {"C16"} [] m = 1048 -> {"C17"}
    [] m = 1049 -> {"C16", "C17"} [] OTHER -> {}          \* cursor visibility, cursor-key mode, ...: no statement says what setting them does
Owner(fn) ==
  LET f == fn.f IN
  CASE f \in {"Print", "Rep", "So", "Si", "Gzd4", "G1d4"} -> {"C04"}
    [] f \in {"Bs", "Cr", "Cuu", "Cud", "Cuf", "Cub", "Cnl", "Cpl", "Cha", "Cup", "Vpa", "Vpr"} -> {"C05"}
    [] f \in {"Ht", "Cht", "Cbt"} -> {"C05", "C18"}
    [] f \in {"Lf", "Nel", "Ri"} -> {"C05", "C06"}
    [] f \in {"Su", "Sd", "Il", "Dl"} -> {"C06"}
    [] f = "Decstbm" -> {"C05", "C06"}
    [] f \in {"Ed", "El", "Ech", "Ich", "Dch", "Decaln"} -> {"C07"}
    [] f = "Sgr" -> {"C08"}
    [] f \in {"Hts", "Ctc", "Tbc"} -> {"C18"}
    [] f \in {"Decsc", "Decrc", "Scosc", "Scorc"} -> {"C17"}
    [] f = "Decstr" -> {}                                     \* no statement says what a soft reset resets; what it does to the saved context is judged by C17's restore predicate
    [] f = "Ris" -> {"C19"}
    [] f \in {"Sm", "Rm"} -> IF \E i \in 1..Len(fn.a) : fn.a[i] = 4 THEN {"C04"} ELSE {}     \* insert mode is C04's; new-line mode is nobody's
    [] f \in {"Decset", "Decrst"} -> UNION {DecModeOwner(fn.a[i]) : i \in 1..Len(fn.a)}
    [] OTHER -> {"C20"}
Owners(fns) == UNION {Owner(fns[i]) : i \in 1..Len(fns)}

\* ------------------------------------------------------------------------ C02
(* Geometry invariants on the public observation of a state.                    *)
GeomOK(vt) ==
  LET t == vt.t  ls == t.buf.lines IN
  /\ t.cols >= 1 /\ t.rows >= 1
  /\ Len(ls) >= t.rows
  /\ \A i \in 1..Len(ls) : Len(ls[i].c) = t.cols
  /\ ~ls[Len(ls)].w
  /\ t.row < t.rows /\ t.row >= 0
  /\ t.col >= 0 /\ t.col <= t.cols
  /\ (t.col = t.cols) => t.pw
(* Design invariants on hidden state (not part of any listed statement; a       *)
(* failure is reported as drift, not as a violation).                           *)
DesignInv(vt) ==
  LET t == vt.t IN
  /\ t.pw => t.col = t.cols
  /\ (t.top < t.bottom \/ (t.rows = 1 /\ t.top = 0 /\ t.bottom = 0))
  /\ t.bottom < t.rows
  /\ Len(t.dirty) = t.rows
  /\ t.buf.cols = t.cols /\ t.buf.rows = t.rows
  /\ \A i \in 1..Len(t.tabs) : t.tabs[i] < t.cols /\ t.tabs[i] > 0 /\ (i > 1 => t.tabs[i - 1] < t.tabs[i])
(* The domain on which the specification's operators are total: a logged state  *)
(* outside it (a cursor below the screen, margins beyond the screen, ...) is    *)
(* reported (geometry: C02; hidden structure: drift) together with the step     *)
(* that produced it; from then on only the geometry of that terminal's logged   *)
(* states (GeomOK is total) and panics are judged.                              *)
Sane(vt) ==
  LET t == vt.t  o == t.other IN
  /\ GeomOK(vt)
  /\ t.top >= 0 /\ t.top <= t.bottom /\ t.bottom < t.rows
  /\ Len(t.dirty) = t.rows
  /\ t.buf.cols = t.cols /\ t.buf.rows = t.rows
  /\ o.cols >= 1 /\ o.rows >= 1 /\ Len(o.lines) >= o.rows
  /\ \A i \in 1..Len(o.lines) : Len(o.lines[i].c) = o.cols
(* "col = cols only as the wrap-pending position reached by printing in the     *)
(* last column with auto-wrap on": a step that raises pw must contain a Print   *)
(* or Rep, and auto-wrap must have been on at some point of the step.           *)
PendingWrapOK(prev, fns, cur) ==
  (~prev.t.pw /\ cur.t.pw) => \E i \in 1..Len(fns) : fns[i].f \in {"Print", "Rep"}
ChangesOK(ch, rows) ==
  /\ \A i \in 1..Len(ch) : ch[i] >= 0 /\ ch[i] < rows
  /\ \A i \in 1..(Len(ch) - 1) : ch[i] < ch[i + 1]

\* ------------------------------------------------------------------------ C13
Bound(vt) ==
  LET t == vt.t  n == Len(t.buf.lines) IN
  /\ t.alt => n = t.rows
  /\ (~t.alt /\ t.lim >= 0) => n <= t.rows + t.lim + (t.lim \div 10)
  /\ (~t.alt /\ t.lim = 0) => n = t.rows

\* ------------------------------------------------------------------------ C15
(* Every visible row whose CELLS differ between the start and the end of a      *)
(* call is reported (wrap marks are not cells).                                 *)
RowCells(vt, r) == Row(vt.t.buf, r).c
ChangesSound(prev, cur, ch) ==
  \A r \in 0..(cur.t.rows - 1) :
    (r >= prev.t.rows \/ RowCells(prev, r) # RowCells(cur, r)) => \E i \in 1..Len(ch) : ch[i] = r

\* ---------------------------------------------------------------- observation
(* C11 / C19: what the public API shows - cells, pens, wrap marks of the view,  *)
(* cursor, visibility, cursor-key mode.                                         *)
ObsEq(a, b) == Pub(a) = Pub(b)
(* C11, stronger: "identical screens and cursors after ANY further input" - every  *)
(* hidden component that some continuation can expose must have been re-created:   *)
(* pen, charsets, tab stops, modes, pending wrap, margins, the parser, and both     *)
(* saved contexts (positions compared as they would be clamped on activation).      *)
ClampCtx(c, t) == [c EXCEPT !.col = Min2(@, t.cols - 1), !.row = Min2(@, t.rows - 1)]
ParserCore(p) ==     \* what of the parser a continuation can expose: stale parameters in other states are dead
  [state |-> p.state,
   params |-> IF p.state \in {"CsiParam", "DcsParam"} THEN p.params ELSE <<>>,
   inter |-> IF p.state \in {"EscapeIntermediate", "CsiIntermediate", "CsiParam", "DcsIntermediate", "DcsParam"} THEN p.inter ELSE -1]
(* what of the parser can ever be read again: parameters and the intermediate are cleared on every entry  *)
(* into Escape / CsiEntry / DcsEntry, so whatever is left in them in Ground, in a string state or in an  *)
(* ignore state is dead - an implementation may keep it or wipe it                                       *)
ParserLive(p) ==
  [state |-> p.state,
   params |-> IF p.state \in {"CsiEntry", "CsiParam", "CsiIntermediate", "DcsEntry", "DcsParam", "DcsIntermediate"} THEN p.params ELSE <<>>,
   inter |-> IF p.state \in {"Escape", "EscapeIntermediate", "CsiEntry", "CsiParam", "CsiIntermediate", "DcsEntry", "DcsParam", "DcsIntermediate"} THEN p.inter ELSE -1]
Hidden(vt) ==
  LET t == vt.t IN
  [pen |-> t.pen, g0 |-> t.g0, g1 |-> t.g1, gl |-> t.gl, tabs |-> t.tabs, insert |-> t.insert, origin |-> t.origin,
   autowrap |-> t.autowrap, newline |-> t.newline, pw |-> t.pw, top |-> t.top, bottom |-> t.bottom, alt |-> t.alt,
   saved |-> ClampCtx(t.saved, t), asaved |-> ClampCtx(t.asaved, t), p |-> ParserCore(vt.p),
   parked |-> IF t.alt /\ t.other.cols = t.cols /\ t.other.rows = t.rows THEN View(t.other) ELSE <<>>]
HiddenEq(a, b) == Hidden(a) = Hidden(b)

(* The two dump() defects the property text keeps as findings, identified by  *)
(* the dump-time state: C11-a = origin mode with the cursor outside the scroll  *)
(* region (dump positions it with CSI u, which re-applies the SAVED context);  *)
(* C11-b = alternate screen showing while the parked primary buffer still has  *)
(* the geometry from before a resize.                                           *)
DumpClasses(vt) ==
  LET t == vt.t IN
     (IF t.origin /\ (t.row < t.top \/ t.row > t.bottom) THEN {"C11-a"} ELSE {})
  \cup (IF t.alt /\ (t.other.cols # t.cols \/ t.other.rows # t.rows) THEN {"C11-b"} ELSE {})

(* C12: whole / pieces / char-wise.  Equal view, cursor, modes (the complete    *)
(* terminal state except the lazily trimmed scrollback and the per-call dirty   *)
(* flags), and equal lines() on the primary screen with unlimited scrollback.   *)
SuffixOf(a, b) == Len(a) <= Len(b) /\ a = LastN(b, Len(a))
ViewOnly(b, keepAll) == [b EXCEPT !.lines = IF keepAll THEN @ ELSE LastN(@, Min2(b.rows, Len(@))), !.trim = FALSE]
Core(vt) ==
  LET t == vt.t IN
  [t EXCEPT !.buf = ViewOnly(@, ~t.alt /\ t.lim = -1), !.other = ViewOnly(@, t.alt /\ t.lim = -1), !.dirty = <<>>]
ChunkEq(a, b) == a.p = b.p /\ Core(a) = Core(b)
(* after a flushing feed_str("") on every slot: the alternate screen (limit 0)  *)
(* shows exactly the same lines(); a primary screen with a finite limit may    *)
(* have been trimmed at different moments, so one is a suffix of the other.     *)
ChunkEqFlushed(a, b) ==
  /\ ChunkEq(a, b)
  /\ a.t.alt => a.t.buf.lines = b.t.buf.lines
  /\ (~a.t.alt /\ a.t.lim >= 0) => (SuffixOf(a.t.buf.lines, b.t.buf.lines) \/ SuffixOf(b.t.buf.lines, a.t.buf.lines))

(* C19: after RIS the WHOLE state equals a fresh terminal's (dirty flags aside: *)
(* RIS reports every row changed).                                              *)
NoDirty(vt) == [vt EXCEPT !.t.dirty = <<>>]
FreshEq(a, b) == NoDirty(a) = NoDirty(b)

(* C14: drained(L) \o lines(L) = lines(unlimited)                                *)
NoLoss(drainedL, a, b) == drainedL \o a.t.buf.lines = b.t.buf.lines

\* ------------------------------------------------------------------------ C10
(* Logical lines: rows joined along wrap marks (cells, not text).               *)
LogicalLines(lines) ==
  LET F(acc, k) == LET cur == acc[2] \o lines[k].c IN
                   IF lines[k].w THEN <<acc[1], cur>> ELSE <<Append(acc[1], cur), <<>>>>
      r == FoldLeft(F, <<<<>>, <<>>>>, Iota(Len(lines)))
  IN IF r[2] # <<>> THEN Append(r[1], r[2]) ELSE r[1]
(* the characters of the logical lines, trailing spaces dropped whatever their pen *)
CharText(lines) ==
  LET L == LogicalLines(lines) IN
  [i \in 1..Len(L) |-> LET last == CHOOSE n \in 0..Len(L[i]) : (n = 0 \/ L[i][n][1] # 32) /\ \A k \in (n + 1)..Len(L[i]) : L[i][k][1] = 32
                       IN [k \in 1..last |-> L[i][k][1]]]
(* two buffers with the same characters in the same logical lines whose cells     *)
(* nevertheless differ: some cell reports another pen (C08), or a blank cell that *)
(* carried a pen is gone                                                           *)
PenDivergence(la, lb) ==
  /\ CharText(la) = CharText(lb)
  /\ LET A == LogicalLines(la)  B == LogicalLines(lb) IN [i \in 1..Len(A) |-> TrimCells(A[i])] # [i \in 1..Len(B) |-> TrimCells(B[i])]
(* the cursor's place in the logical text, computed POSITIONALLY: <<index of its  *)
(* logical line, offset within it>>; a wrap-pending cursor is logically after the *)
(* last character of its row                                                      *)
CursorLogical(t) ==
  LET ls == t.buf.lines
      a == Len(ls) - t.rows + t.row + 1
      ends == {i \in 1..(a - 1) : ~ls[i].w}
      start == IF ends = {} THEN 1 ELSE (CHOOSE i \in ends : \A j \in ends : j <= i) + 1
  IN <<Cardinality(ends) + 1, (a - start) * t.cols + t.col>>
IsPrefixSeq(a, b) == Len(a) <= Len(b) /\ a = SubSeq(b, 1, Len(a))
SameUpToBlanks(a, b) == TrimCells(a) = TrimCells(b)
AllDefault(cells) == \A i \in 1..Len(cells) : IsDefault(cells[i])
(* new logical lines L2 against old L1 from line `from` on: unchanged (up to       *)
(* trailing blanks), then possibly one line cut short, then only blank padding    *)
TailPreserved(L1, L2, from) ==
  \E n \in (from - 1)..Len(L2) :
    /\ \A i \in from..n : i <= Len(L1) /\ (SameUpToBlanks(L2[i], L1[i]) \/ (i = n /\ IsPrefixSeq(TrimCells(L2[i]), L1[i])))
    /\ \A i \in (n + 1)..Len(L2) : AllDefault(L2[i])
ResizeTextOK(t, u) ==
  LET L1 == LogicalLines(t.buf.lines)  L2 == LogicalLines(u.buf.lines)
      c1 == CursorLogical(t)  c2 == CursorLogical(u)
      k == c1[1]  o == c1[2]
  IN /\ c2[1] = k                                                       \* same logical line
     /\ k <= Len(L2) /\ k <= Len(L1)
     /\ \A i \in 1..(k - 1) : SameUpToBlanks(L2[i], L1[i])              \* everything above: unchanged
     /\ LET pre == Min2(o, Len(TrimCells(L1[k]))) IN
        Len(L2[k]) >= pre /\ SubSeq(L2[k], 1, pre) = SubSeq(L1[k], 1, pre) \* everything before the cursor intact
     /\ (o < Len(TrimCells(L1[k])) => c2[2] = o)                         \* on a character: on that same character
     /\ (SameUpToBlanks(L2[k], L1[k]) \/ IsPrefixSeq(TrimCells(L2[k]), L1[k]))
     /\ (IF SameUpToBlanks(L2[k], L1[k]) THEN TailPreserved(L1, L2, k + 1)
         ELSE \A i \in (k + 1)..Len(L2) : AllDefault(L2[i]))              \* cut inside the cursor's line: nothing after it
(* C16 after a resize during the excursion: the primary's lines re-wrapped, never  *)
(* altered (at most cut short)                                                    *)
LinesPreserved(lines1, lines2) == TailPreserved(LogicalLines(lines1), LogicalLines(lines2), 1)

\* ------------------------------------------------------------------------ C09
(* text() = the input lines, trailing white space trimmed, trailing empties     *)
(* aside; unwrapping lines() gives the same up to trailing spaces.              *)
TextOK(textOut, inputLines) ==
  DropTrailingEmpty(textOut) = DropTrailingEmpty([i \in 1..Len(inputLines) |-> TrimEnd(inputLines[i])])
UnwrapOK(vt, inputLines) ==
  LET u == Unwrap(vt.t.buf.lines, <<>>)
      got == IF u.carry # <<>> THEN Append(u.out, u.carry) ELSE u.out
  IN DropTrailingEmpty([i \in 1..Len(got) |-> TrimEnd(got[i])])
     = DropTrailingEmpty([i \in 1..Len(inputLines) |-> TrimEnd(inputLines[i])])
=============================================================================
