------------------------------- MODULE Trace --------------------------------
(* Trace validation: is every step of a behaviour recorded from the REAL Vt a   *)
(* step of the specification, and does every listed property hold on it?        *)
(*                                                                            *)
(* The trace (ndjson, one event per public call, written by harness/) carries   *)
(* the call, its arguments, its results and the COMPLETE projected state after  *)
(* the call.  The next state of this trace specification is always the LOGGED   *)
(* state; the specification's prediction is compared with it.  So a divergence  *)
(* never ends the examination: every later event is still judged, relative to   *)
(* the implementation's own previous state.                                     *)
(*                                                                            *)
(* Judgements are printed, never blocking:                                      *)
(*   "@@ FAIL <prop> l=<event> <what>"      a listed property is violated       *)
(*   "@@ CONF l=<event> owners=<set> ..."   the step is not a step of (S); it   *)
(*                                           is a violation for the owners      *)
(*   "@@ DRIFT l=<event> ..."                divergence outside every property  *)
(* The orchestrator (check.py) turns them into VIOLATION / KNOWN-FINDING lines. *)
EXTENDS StepProps, Dump, ParserRef, Json, IOUtils

Rec == ndJsonDeserialize(IOEnv.TRACE)

VARIABLES l,      \* index of the next event
          vts,    \* slot -> last logged state of that slot ([dead |-> TRUE] after a panic)
          gh,     \* slot -> ghost record (history the properties speak about)
          pp,     \* the stand-alone parser of C03 episodes (last logged state)
          tcs,    \* util::TextCollector slots: [vt, carry, acc] (the Vt inside is not observable: predicted)
          cnt     \* how often each predicate was actually evaluated (vacuity guard, goes into the evidence)

Dead == [dead |-> TRUE]
LimpOf(st) == [dead |-> FALSE, st |-> st]   \* out of the specification's domain: only GeomOK (total on any record), panics and the
                                            \* dump round trip (a relation between two LOGGED states) are judged; the last logged state is kept
Gone(x) == "dead" \in DOMAIN x
IsLimp(x) == Gone(x) /\ ~x.dead
Ghost0 == [drained |-> <<>>,      \* every line handed out through Changes.scrollback (C14)
           ris |-> FALSE,         \* the session executed a hard reset
           resized |-> FALSE,     \* the session resized
           snap |-> NoLine,       \* primary buffer at the moment of entering the alternate screen (C16)
           snapResized |-> FALSE, \* a resize happened during the excursion
           entry |-> NoLine,      \* cursor at the moment of entering through ?1049h
           savP |-> [known |-> TRUE, moved |-> FALSE, ctx |-> DefCtx],   \* most recent save on the primary screen (C17)
           savA |-> [known |-> TRUE, moved |-> FALSE, ctx |-> DefCtx],   \* ... on the alternate screen
           dclass |-> {},         \* known-finding classes the state was in when dump() was taken (C11)
           dmirror |-> TRUE,      \* the dump text equals the specification's mirror of the pinned dump()
           dstate |-> NoLine,     \* the state dump() was taken in
           dstage |-> "none",     \* "dumped" until the first relation after the restore has been judged
           dexact |-> FALSE,      \* the restored terminal is exactly what the pinned dump() is known to restore to
           lastClean |-> TRUE,    \* the parser's parameter array was clean beyond the live prefix after the last call
           lastText |-> <<>>,     \* the last text() output logged for this slot
           carry |-> <<>>]        \* TextUnwrapper carry of a collector slot

S(x) == ToString(x)
FnEq(x, y) == x.f = y.f /\ x.a = y.a          \* compare the arguments only when the kinds agree (TLC is typed)
OutsEq(xs, ys) == Len(xs) = Len(ys) /\ \A i \in 1..Len(xs) : FnEq(xs[i], ys[i])
Msg(kind, ll, rest) == "@@ " \o kind \o " l=" \o S(ll) \o " " \o rest
DiffFields(a, b) == {f \in DOMAIN a : f \in DOMAIN b => a[f] # b[f]}
TermDiff(a, b) ==
  LET d == DiffFields(a, b) IN
  d \cup (IF "buf" \in d THEN {"buf." \o f : f \in DiffFields(a.buf, b.buf)} ELSE {})
    \cup (IF "other" \in d THEN {"other." \o f : f \in DiffFields(a.other, b.other)} ELSE {})
FnNames(fns) == [i \in 1..Len(fns) |-> fns[i].f]

(* properties evaluated on every logged post-call state *)
StateMsgs(ll, prev, fns, cur, e) ==
     (IF GeomOK(cur) THEN <<>> ELSE <<Msg("FAIL C02", ll, "geometry")>>)
  \o (IF PendingWrapOK(prev, fns, cur) THEN <<>> ELSE <<Msg("FAIL C02", ll, "pending-wrap raised without printing")>>)
  \o (IF "view" \in DOMAIN e /\ e.view # View(cur.t.buf) THEN <<Msg("FAIL C02", ll, "view is not the tail of lines")>> ELSE <<>>)
  \o (IF e.hook THEN <<>> ELSE <<Msg("FAIL C02", ll, "public accessors disagree with internal state")>>)
  \o (IF DesignInv(cur) THEN <<>> ELSE <<Msg("DRIFT", ll, "design invariant")>>)
  \o (IF e.clean THEN <<>> ELSE <<Msg("FAIL C03", ll, "parser parameters not clean beyond the live prefix")>>)

CallMsgs(ll, prev, cur, e) ==
     (IF ChangesOK(e.ch, cur.t.rows) THEN <<>> ELSE <<Msg("FAIL C02", ll, "changed-line indices")>>)
  \o (IF Bound(cur) THEN <<>> ELSE <<Msg("FAIL C13", ll, "lines=" \o S(Len(cur.t.buf.lines)))>>)
  \o (IF ChangesSound(prev, cur, e.ch) THEN <<>> ELSE <<Msg("FAIL C15", ll, "unreported changed row ch=" \o S(e.ch))>>)

(* C16: the primary screen during and after an excursion *)
IsSwitch(fn) == fn.f \in {"Decset", "Decrst"} /\ \E i \in 1..Len(fn.a) : fn.a[i] \in {1047, 1049}
SamePrimary(lines, snap, lim) == IF lim < 0 THEN lines = snap ELSE SuffixOf(lines, snap)   \* a lazy trim may have run
AltMsgs(ll, gOld, gNew, prev, fns, cur) ==
     (IF cur.t.alt /\ gNew.snap # NoLine /\ ~gNew.snapResized /\ ~SamePrimary(cur.t.other.lines, gNew.snap.c, cur.t.lim)
      THEN <<Msg("FAIL C16", ll, "parked primary buffer changed during the excursion")>> ELSE <<>>)
  \o (IF prev.t.alt /\ ~cur.t.alt /\ Len(fns) = 1 /\ IsSwitch(fns[1]) /\ gOld.snap # NoLine /\ ~gOld.snapResized
         /\ ~SamePrimary(cur.t.buf.lines, gOld.snap.c, cur.t.lim)
      THEN <<Msg("FAIL C16", ll, "primary screen differs after leaving the alternate screen")>> ELSE <<>>)
  \o (IF prev.t.alt /\ ~cur.t.alt /\ Len(fns) = 1 /\ IsSwitch(fns[1]) /\ gOld.snap # NoLine /\ gOld.snapResized
         /\ cur.t.lim = -1 /\ ~LinesPreserved(gOld.snap.c, cur.t.buf.lines)
      THEN <<Msg("FAIL C16", ll, "primary text altered by resizes during the excursion")>> ELSE <<>>)
  \o (IF prev.t.alt /\ ~cur.t.alt /\ Len(fns) = 1 /\ fns[1].f = "Decrst" /\ fns[1].a = <<1049>>
         /\ gOld.entry # NoLine /\ ~gOld.snapResized
         /\ <<cur.t.col, cur.t.row, cur.t.pw>> # <<gOld.entry.c[1], gOld.entry.c[2], FALSE>>
      THEN <<Msg("FAIL C16", ll, "?1049l does not put the cursor back where ?1049h found it")>> ELSE <<>>)
AltEntryMsgs(ll, prev, fns, cur) ==
  IF ~prev.t.alt /\ cur.t.alt /\ Len(fns) = 1
  THEN (IF \A i \in 1..Len(cur.t.buf.lines) : \A k \in 1..cur.t.cols : cur.t.buf.lines[i].c[k] = BlankCell(prev.t.pen)
        THEN <<>> ELSE <<Msg("FAIL C16", ll, "alternate screen not blank (current pen) on entry")>>)
  ELSE <<>>

(* C17 ghost: what the most recent save on each screen recorded, maintained from   *)
(* the one-function calls; anything murkier makes it unknown until the next save  *)
IsSaveFn(fn) == fn.f \in {"Decsc", "Scosc"} \/ (fn.f = "Decset" /\ fn.a = <<1048>>)
IsRestoreFn(fn) == fn.f \in {"Decrc", "Scorc"} \/ (fn.f = "Decrst" /\ fn.a = <<1048>>)
TouchesCtx(fn) == IsSaveFn(fn) \/ fn.f \in {"Decstr", "Ris"} \/ (fn.f \in {"Decset", "Decrst"} /\ \E i \in 1..Len(fn.a) : fn.a[i] \in {1048, 1049})
Saved(t) == [known |-> TRUE, moved |-> FALSE, ctx |-> CtxOf(t)]
Fresh0 == [known |-> TRUE, moved |-> FALSE, ctx |-> DefCtx]
Unknown == [known |-> FALSE, moved |-> FALSE, ctx |-> DefCtx]
SaveGhost(g, prev, fns) ==     \* -> <<savP, savA>>
  IF Len(fns) = 1 THEN
    LET fn == fns[1] IN
    IF IsSaveFn(fn) \/ (fn.f = "Decset" /\ fn.a = <<1049>>)
    THEN (IF prev.t.alt THEN <<g.savP, Saved(prev.t)>> ELSE <<Saved(prev.t), g.savA>>)
    ELSE IF fn.f = "Decstr" THEN (IF prev.t.alt THEN <<g.savP, Fresh0>> ELSE <<Fresh0, g.savA>>)
    ELSE IF fn.f = "Ris" THEN <<Fresh0, Fresh0>>
    ELSE IF TouchesCtx(fn) /\ ~IsRestoreFn(fn) /\ ~(fn.f = "Decrst" /\ fn.a = <<1049>>) THEN <<Unknown, Unknown>>
    ELSE <<g.savP, g.savA>>
  ELSE IF \E i \in 1..Len(fns) : TouchesCtx(fns[i]) THEN <<Unknown, Unknown>>
  ELSE <<g.savP, g.savA>>
RestoreGhostMsgs(ll, g, prev, fns, cur) ==
  IF Len(fns) = 1 /\ (IsRestoreFn(fns[1]) \/ (fns[1].f = "Decrst" /\ fns[1].a = <<1049>> /\ prev.t.alt))
  THEN LET sv == IF fns[1].f = "Decrst" /\ fns[1].a = <<1049>> THEN g.savP ELSE IF prev.t.alt THEN g.savA ELSE g.savP
           u == cur.t IN
       IF ~sv.known THEN <<>>
       ELSE IF <<u.pen, u.origin, u.autowrap>> # <<sv.ctx.pen, sv.ctx.origin, sv.ctx.autowrap>>
               \/ (~sv.moved /\ <<u.col, u.row>> # <<sv.ctx.col, sv.ctx.row>>)
               \/ u.col >= u.cols \/ u.row >= u.rows \/ u.pw
            THEN <<Msg("FAIL C17", ll, "restore does not re-establish the most recent save of this screen: saved " \o ToJson(sv.ctx))>>
            ELSE <<>>
  ELSE <<>>

GhostStep(g, prev, fns, cur, dr) ==
  LET enters == ~prev.t.alt /\ cur.t.alt
      leaves == prev.t.alt /\ ~cur.t.alt
      hasRis == \E i \in 1..Len(fns) : fns[i].f = "Ris"
      murky  == Len(fns) > 1 /\ \E i \in 1..Len(fns) : IsSwitch(fns[i])   \* several steps incl. a switch in one call
  IN [g EXCEPT !.drained = @ \o dr,
               !.ris = @ \/ hasRis,
               !.snap = IF hasRis \/ leaves \/ murky THEN NoLine
                        ELSE IF enters THEN [c |-> prev.t.buf.lines, w |-> FALSE] ELSE @,
               !.snapResized = IF enters THEN FALSE ELSE @,
               !.savP = SaveGhost(g, prev, fns)[1],
               !.savA = SaveGhost(g, prev, fns)[2],
               !.entry = IF hasRis \/ leaves \/ murky THEN NoLine
                         ELSE IF enters /\ Len(fns) = 1 /\ fns[1] = FS("Decset", <<1049>>)
                              THEN [c |-> <<Min2(prev.t.col, prev.t.cols - 1), prev.t.row>>, w |-> FALSE] ELSE @]

(* Who is to blame for a step that is not a step of (S)?  The properties that    *)
(* own the executed functions - unless the divergence is confined to the          *)
(* changed-line bookkeeping (C15) or the lazy-trim bookkeeping (C13) - plus the   *)
(* properties that own the diverging component itself.                            *)
Leaves(a, b) ==
  LET d == DiffFields(a, b) IN
  (d \ {"buf", "other"})
    \cup (IF "buf" \in d THEN {"buf." \o f : f \in DiffFields(a.buf, b.buf)} ELSE {})
    \cup (IF "other" \in d THEN {"other." \o f : f \in DiffFields(a.other, b.other)} ELSE {})
FieldOwners(rest, alt, isResize) ==
     (IF rest \cap {"tabs"} # {} THEN {"C18"} ELSE {})
  \cup (IF rest \cap {"saved", "asaved"} # {} THEN {"C17"} ELSE {})
  \cup (IF rest \cap {"other.lines", "other.cols", "other.rows", "other.lim"} # {} THEN {"C16"} ELSE {})
  \cup (IF rest \cap {"top", "bottom"} # {} THEN {"C05", "C06"} ELSE {})          \* margins change only through a valid DECSTBM, a height change, DECSTR, RIS
  \cup (IF isResize /\ ~alt /\ rest \cap {"buf.lines", "col", "row", "pw", "buf.cols", "buf.rows"} # {} THEN {"C10"} ELSE {})
  \cup (IF isResize /\ rest \cap {"cols", "rows"} # {} THEN {"C02"} ELSE {})
(* Components the properties leave free are not compared by equality: the dirty   *)
(* flags / changed-line set (C15 demands soundness only), the trim_needed flags    *)
(* and the moment of the lazy trim (C13 demands the bound, C14 that nothing is     *)
(* lost).  So the terminal is compared with the handed-out lines put back in       *)
(* front of lines(); when the caller dropped them unread, the shorter lines() must *)
(* be a suffix of the other.                                                       *)
(* Silent points: places where the property statements say nothing and a          *)
(* maintainer could reasonably choose otherwise (DESIGN.md 3.3).  (S) mirrors the  *)
(* pinned code there; for a one-function call the comparison erases exactly that   *)
(* component on both sides, so a change confined to a silent point is reported as  *)
(* DRIFT, never as a violation.  The declarative predicates stay strict wherever   *)
(* a statement does speak.                                                         *)
EraseMarks(t, rows) ==
  [t EXCEPT !.buf.lines = [i \in 1..Len(@) |-> IF (i - (Len(@) - t.rows) - 1) \in rows THEN [@[i] EXCEPT !.w = FALSE] ELSE @[i]]]
Silence(pre, fn, x) ==
  LET f == fn.f IN
  IF x.rows # pre.rows \/ x.cols # pre.cols \/ Len(x.buf.lines) < x.rows THEN x
  ELSE CASE f = "Decstbm" /\ ~(LET tp == NN(fn.a[1]) bt == IF fn.a[2] = 0 THEN pre.rows ELSE fn.a[2] IN 1 <= tp /\ tp < bt /\ bt <= pre.rows)
              -> [x EXCEPT !.col = 0, !.row = 0, !.pw = FALSE]                       \* does an INVALID DECSTBM home?
         [] f \in {"Lf", "Nel"} /\ IsScrollingStep(pre, fn)
              -> EraseMarks([x EXCEPT !.col = IF f = "Lf" /\ pre.newline THEN 0 ELSE Min2(@, x.cols - 1), !.pw = FALSE], (pre.top - 1)..pre.bottom)   \* ScrollingLfKeepsPendingWrap
         [] f = "Lf" /\ pre.newline -> [x EXCEPT !.col = 0, !.pw = FALSE]               \* what the new-line mode adds to LF: no statement
         [] f \in {"Su", "Dl"} -> EraseMarks(x, ((IF f = "Su" THEN pre.top ELSE pre.row) - 1)..pre.rows)       \* PartialRegionScrollClearsWrapMark
         [] f = "Sd" -> EraseMarks(x, {pre.top - 1, pre.bottom})                      \* marks of the rows adjacent to a scrolled range
         [] f = "Il" -> EraseMarks(x, {pre.row - 1, IF pre.row <= pre.bottom THEN pre.bottom ELSE pre.rows - 1})
         [] f = "Ri" /\ IsScrollingStep(pre, fn)
              -> EraseMarks([x EXCEPT !.col = Min2(@, x.cols - 1), !.pw = FALSE], {pre.top - 1, pre.bottom})    \* (a scrolling RI and a pending wrap: as for LF)
         [] f = "Print" /\ pre.autowrap /\ pre.pw /\ pre.row = pre.bottom -> EraseMarks(x, (pre.top - 1)..pre.bottom)
         [] f = "Ech" /\ pre.col >= pre.cols -> EraseMarks(x, {pre.row})             \* EchAtWrapColumnClearsMark
         [] f = "El" /\ ((fn.a[1] = 1 /\ pre.col >= pre.cols - 1) \/ (fn.a[1] = 0 /\ pre.col >= pre.cols)) -> EraseMarks(x, {pre.row})   \* El1KeepsMark
         [] f = "Ed" /\ ((fn.a[1] = 1 /\ pre.col >= pre.cols - 1) \/ (fn.a[1] = 0 /\ pre.col >= pre.cols)) -> EraseMarks(x, {pre.row})
         [] f = "Decaln" -> EraseMarks(x, 0..(pre.rows - 1))                          \* DecalnKeepsWrapMarks
         [] OTHER -> x

(* a parked primary buffer with a finite limit may be trimmed at any call boundary: only its view is compared
   by equality, its scrollback by the suffix relation (ParkedOK) *)
ParkedView(t) == IF t.alt /\ t.lim >= 0 /\ Len(t.other.lines) >= t.other.rows THEN LastN(t.other.lines, t.other.rows) ELSE t.other.lines
ParkedOK(a, b) == ~(a.alt /\ a.lim >= 0) \/ SuffixOf(a.other.lines, b.other.lines) \/ SuffixOf(b.other.lines, a.other.lines)
(* while the PRIMARY screen shows, the alternate buffer is dead state: every entry clears it and re-sizes it, so what an
   implementation keeps there in the meantime (stale content, stale size, nothing at all) cannot be observed *)
NoOther == [lines |-> <<>>, cols |-> 0, rows |-> 0, lim |-> 0, trim |-> FALSE]
OtherNormal(t) == IF t.alt THEN [t.other EXCEPT !.trim = FALSE, !.lines = ParkedView(t)] ELSE NoOther
Normal(t, dr) == [t EXCEPT !.buf.lines = dr \o @, !.buf.trim = FALSE, !.other = OtherNormal(t), !.dirty = <<>>]
ViewNormal(t) == [t EXCEPT !.buf.lines = View(t.buf), !.buf.trim = FALSE, !.other = OtherNormal(t), !.dirty = <<>>]
(* blame of a one-function step, by function AND diverging component              *)
CtxLeaves == {"col", "row", "pw", "pen", "origin", "autowrap", "saved", "asaved"}
FnBlame(pre, fn, leaves) ==
  LET f == fn.f IN
  IF f \in {"Lf", "Nel", "Ri"}
  THEN (IF IsScrollingStep(pre, fn) THEN {"C06"}
        ELSE IF "buf.lines" \in leaves THEN {"C05", "C06"}       \* it scrolled (or wrote) where it must only move
        ELSE {"C05"})
  ELSE IF f \in {"Decset", "Decrst"} /\ \E i \in 1..Len(fn.a) : fn.a[i] = 1049
       THEN (IF leaves \cap CtxLeaves # {} THEN {"C16", "C17"} ELSE {}) \cup (IF leaves \ CtxLeaves # {} THEN {"C16"} ELSE {})
            \cup UNION {DecModeOwner(fn.a[i]) : i \in {j \in 1..Len(fn.a) : fn.a[j] # 1049}}
  ELSE Owner(fn)
Conformance(ll, what, r, fns, e, own) ==
  LET cur == e.st
      a == IF e.consumed THEN Normal(r.vt.t, r.dr) ELSE ViewNormal(r.vt.t)
      b == IF e.consumed THEN Normal(cur.t, e.dr) ELSE ViewNormal(cur.t)
      okSb == /\ (e.consumed \/ SuffixOf(cur.t.buf.lines, r.vt.t.buf.lines) \/ SuffixOf(r.vt.t.buf.lines, cur.t.buf.lines))
              /\ ParkedOK(r.vt.t, cur.t)
      silent == a # b /\ Len(fns) = 1 /\ what = "fs" /\ Silence(e.pre, fns[1], a) = Silence(e.pre, fns[1], b)
      okT == a = b \/ silent
      okP == ParserLive(r.vt.p) = ParserLive(cur.p)
      leaves == IF okT THEN {} ELSE Leaves(a, b)
      (* cells with the right characters and marks but the wrong pen are C08's business, whoever wrote them *)
      penOnly == /\ "buf.lines" \in leaves /\ Len(a.buf.lines) = Len(b.buf.lines)
                 /\ \A i \in 1..Len(a.buf.lines) :
                      /\ a.buf.lines[i].w = b.buf.lines[i].w /\ Len(a.buf.lines[i].c) = Len(b.buf.lines[i].c)
                      /\ \A k \in 1..Len(a.buf.lines[i].c) : a.buf.lines[i].c[k][1] = b.buf.lines[i].c[k][1]
      own1 == IF Len(fns) = 1 /\ what # "rs" THEN FnBlame(e.pre, fns[1], leaves) ELSE own
      own2 == IF penOnly /\ what # "rs" THEN own1 \cup {"C08"} ELSE own1
      fleaves == IF Len(fns) = 1 /\ fns[1].f = "Decstr" THEN leaves \ {"top", "bottom"} ELSE leaves   \* (whether a soft reset resets the margins: no statement)
      blame ==    (IF leaves # {} THEN own2 \cup FieldOwners(fleaves, cur.t.alt, what = "rs") ELSE {})
              \cup (IF okP THEN {} ELSE {"C03"})
              \cup (IF okSb \/ what = "rs" THEN {} ELSE own2)
              (* a resize after which the characters are where they should be but some cell lost or changed its pen *)
              \cup (IF what = "rs" /\ "buf.lines" \in leaves /\ PenDivergence(a.buf.lines, b.buf.lines) THEN {"C08"} ELSE {})
              (* a divergence that leaves the cursor outside the screen: every statement about where the cursor may be *)
              \cup (IF leaves # {} /\ (cur.t.row >= cur.t.rows \/ cur.t.col > cur.t.cols) THEN {"C02", "C05"} ELSE {})
      detail == " fns=" \o S(FnNames(fns))
                \o (IF okT THEN "" ELSE " tdiff=" \o S(leaves))
                \o (IF okP THEN "" ELSE " parser: spec=" \o ToJson(r.vt.p) \o " impl=" \o ToJson(cur.p))
                \o (IF okSb THEN "" ELSE " scrollback diverges")
      bookkeeping == r.ch # e.ch \/ r.vt.t.dirty # cur.t.dirty \/ r.vt.t.buf.trim # cur.t.buf.trim
                     \/ r.vt.t.other.trim # cur.t.other.trim \/ (e.consumed /\ Len(r.dr) # Len(e.dr))
  IN (IF okT /\ okP /\ okSb THEN <<>> ELSE <<Msg("CONF", ll, "what=" \o what \o " owners=" \o S(blame) \o detail)>>)
     \o (IF silent THEN <<Msg("DRIFT", ll, "silent point: " \o fns[1].f \o " differs from the pinned behaviour only where no property speaks")>> ELSE <<>>)
     \o (IF okT /\ okP /\ okSb /\ bookkeeping
         THEN <<Msg("DRIFT", ll, "bookkeeping differs (changed-line set / trim timing): changes spec=" \o S(r.ch) \o " impl=" \o S(e.ch))>> ELSE <<>>)

Handle(ll, e) ==
  LET k == e.ev IN
  IF k = "ep" THEN [vts |-> <<>>, gh |-> <<>>, msgs |-> <<>>]
  ELSE IF k = "new" THEN
    LET f == Fresh(e.cols, e.rows, e.lim) IN
    [vts |-> Append(vts, e.st), gh |-> Append(gh, Ghost0),
     msgs |-> (IF f = e.st THEN <<>> ELSE <<Msg("CONF", ll, "what=new owners={\"C19\"} tdiff=" \o S(TermDiff(f.t, e.st.t)))>>)
              \o StateMsgs(ll, e.st, <<>>, e.st, e)]
  ELSE IF k = "panic" THEN
    (* a call that panics did not do what its input asks for either: the owners of the functions it carried *)
    LET fns == IF "s" \in DOMAIN e /\ e.slot > 0 /\ ~Gone(vts[e.slot]) THEN Functions(vts[e.slot].p, e.s) ELSE <<>>
        own == IF ~("s" \in DOMAIN e) \/ e.slot = 0 \/ Gone(vts[e.slot]) THEN {} ELSE IF fns = <<>> THEN {"C20"} ELSE Owners(fns)
    IN
    [vts |-> IF e.slot = 0 THEN vts ELSE [vts EXCEPT ![e.slot] = Dead], gh |-> gh,
     msgs |-> <<Msg("FAIL C01", ll, "panic in " \o e.op \o ": " \o e.msg)>>
              \o (IF own = {} THEN <<>> ELSE <<Msg("CONF", ll, "what=panic owners=" \o S(own) \o " fns=" \o S(FnNames(fns)))>>)]
  ELSE IF k \in {"fs", "fc", "rs"} THEN
    LET s == e.slot  prev == vts[s]  cur == e.st IN
    IF prev = Dead THEN [vts |-> vts, gh |-> gh, msgs |-> <<>>]
    ELSE IF IsLimp(prev) THEN [vts |-> [vts EXCEPT ![s] = LimpOf(cur)], gh |-> gh, msgs |-> IF GeomOK(cur) THEN <<>> ELSE <<Msg("FAIL C02", ll, "geometry")>>]
    ELSE
    LET fns == IF k = "rs" THEN <<>> ELSE Functions(prev.p, e.s)
        own == IF k = "rs" THEN {} ELSE IF fns = <<>> THEN {"C20"} ELSE Owners(fns)
        r == IF k = "fs" THEN FeedStr(prev, e.s)
             ELSE IF k = "rs" THEN ResizeCall(prev, e.cols, e.rows)
             ELSE [vt |-> FeedChars(prev, e.s), ch |-> <<>>, dr |-> <<>>]
        e2 == IF k = "fc" THEN [ch |-> <<>>, dr |-> <<>>, consumed |-> TRUE, st |-> e.st, pre |-> prev.t]
              ELSE [ch |-> e.ch, dr |-> e.dr, consumed |-> e.consumed, st |-> e.st, pre |-> prev.t]
        g1 == GhostStep(gh[s], prev, fns, cur, IF k = "fc" THEN <<>> ELSE e.dr)
        g1b == [g1 EXCEPT !.lastClean = e.clean]
        g2 == IF k = "rs" THEN [g1b EXCEPT !.resized = TRUE, !.snapResized = TRUE, !.savP.moved = TRUE, !.savA.moved = TRUE] ELSE g1b
    IN IF ~Sane(cur)
       THEN [vts |-> [vts EXCEPT ![s] = LimpOf(cur)], gh |-> gh,
             msgs |-> Conformance(ll, k, r, fns, e2, own)
                      \o (IF GeomOK(cur) THEN <<>> ELSE <<Msg("FAIL C02", ll, "geometry")>>)
                      \o <<Msg("DRIFT", ll, "state outside the specification's domain: from here on only the geometry of this terminal's logged states and panics are judged")>>]
       ELSE
       [vts |-> [vts EXCEPT ![s] = cur], gh |-> [gh EXCEPT ![s] = g2],
        msgs |-> Conformance(ll, k, r, fns, e2, own)
                 \o StateMsgs(ll, prev, IF k = "rs" THEN <<>> ELSE fns, cur, e)
                 \o (IF k = "fc" THEN <<>> ELSE CallMsgs(ll, prev, cur, e))
                 \o (IF k = "fs" /\ TokenMeaning(e.s).known
                       /\ ~(LET want == TokenMeaning(e.s).fn IN IF want.f = "None" THEN fns = <<>> ELSE Len(fns) = 1 /\ FnEq(fns[1], want))
                     THEN <<Msg("FAIL C03", ll, "the specification's own parser disagrees with the meaning of the sequence as written")>> ELSE <<>>)
                 \o (IF k = "fs" /\ TokenMeaning(e.s).known /\ TokenMeaning(e.s).fn.f = "None"
                       /\ ~(/\ ViewNormal(cur.t) = ViewNormal(prev.t)                       \* (the end-of-call trim may run: it is not the sequence's doing)
                            /\ SuffixOf(cur.t.buf.lines, prev.t.buf.lines)
                            /\ ((\A i \in 1..Len(prev.t.dirty) : ~prev.t.dirty[i]) => e.ch = <<>>)
                            /\ cur.p.state = "Ground")
                     THEN <<Msg("FAIL C20", ll, "a sequence that means nothing (as written) changed the terminal, reported a changed line or left the parser outside ground state")>> ELSE <<>>)
                 \o (IF k = "fs" /\ Len(fns) = 1 /\ StepProp(prev.t, fns[1]) # "none"
                       /\ ~StepOK(prev.t, fns[1], cur.t, e.ch, IF e.consumed THEN Drained(e.dr) ELSE Unread)
                     THEN <<Msg("FAIL " \o StepProp(prev.t, fns[1]), ll, "declarative step predicate fails for " \o ToJson(fns[1]))>> ELSE <<>>)
                 \o (IF k = "rs" THEN <<>> ELSE RestoreGhostMsgs(ll, gh[s], prev, fns, cur))
                 \o AltMsgs(ll, gh[s], g2, prev, fns, cur) \o AltEntryMsgs(ll, prev, fns, cur)
                 \o (IF k = "rs" /\ ~cur.t.alt /\ cur.t.lim = -1 /\ ~ResizeTextOK(prev.t, cur.t)
                     THEN <<Msg("FAIL C10", ll, "resize altered the logical text or lost the cursor's place: cursor " \o S(CursorLogical(prev.t)) \o " -> " \o S(CursorLogical(cur.t)))>> ELSE <<>>)
                 \o (IF k = "rs" /\ (e.cols # cur.t.cols \/ e.rows # cur.t.rows)
                     THEN <<Msg("FAIL C02", ll, "size() does not report the requested geometry")>> ELSE <<>>)]
  ELSE IF k = "dump" THEN
    LET s == e.slot  cur == vts[s] IN
    IF Gone(cur) THEN [vts |-> vts, gh |-> gh, msgs |-> <<>>]
    ELSE [vts |-> vts, gh |-> [gh EXCEPT ![s].dclass = DumpClasses(cur), ![s].dmirror = (e.out = VtDump(cur)),
                                         ![s].dstate = [c |-> <<cur>>, w |-> FALSE], ![s].dstage = "dumped", ![s].dexact = FALSE],
          msgs |-> IF e.out = VtDump(cur) THEN <<>>
                   ELSE <<Msg("DRIFT", ll, "dump() text differs from the specification's mirror (the text is not a property)")>>]
  ELSE IF k = "q" THEN
    (* read-only accessors beyond the listed properties: Vt::line(n), Line::chunks / text / len, Cursor -> Option *)
    LET s == e.slot  cur == vts[s] IN
    IF Gone(cur) THEN [vts |-> vts, gh |-> gh, msgs |-> <<>>]
    ELSE LET v == View(cur.t.buf)
             wantChunks == [r \in 1..Len(v) |-> LET ch == Chunks(v[r].c, LAMBDA c1, c2 : c1[2] # c2[2]) IN [i \in 1..Len(ch) |-> Len(ch[i])]]
             wantTexts == [r \in 1..Len(v) |-> LineText(v[r])]
             wantLens == [r \in 1..Len(v) |-> Len(v[r].c)]
         IN [vts |-> vts, gh |-> gh,
             msgs |-> IF e.chunks = wantChunks /\ e.texts = wantTexts /\ e.lens = wantLens /\ e.curopt THEN <<>>
                      ELSE <<Msg("DRIFT", ll, "a read-only accessor (line(n) / chunks / text / len / cursor option) differs from the specification")>>]
  ELSE IF k = "text" THEN
    LET s == e.slot  cur == vts[s] IN
    IF Gone(cur) THEN [vts |-> vts, gh |-> gh, msgs |-> <<>>]
    ELSE [vts |-> vts, gh |-> [gh EXCEPT ![s].lastText = e.out],
          msgs |-> (IF Text(cur.t) = e.out THEN <<>> ELSE <<Msg("CONF", ll, "what=text owners={\"C09\", \"C16\"}")>>)
                   (* the real util::TextUnwrapper over lines() against the specification's *)
                   \o (IF "unwrap" \in DOMAIN e
                         /\ e.unwrap # (LET u == Unwrap(cur.t.buf.lines, <<>>) IN IF u.carry # <<>> THEN Append(u.out, u.carry) ELSE u.out)
                       THEN <<Msg("CONF", ll, "what=unwrap owners={\"C09\", \"C14\"} TextUnwrapper over lines() differs from the specification")>> ELSE <<>>)
                   \o (IF gh[s].snap # NoLine /\ ~gh[s].snapResized /\ cur.t.alt /\ e.out # BufText(gh[s].snap.c)
                       THEN <<Msg("FAIL C16", ll, "text() changed during the excursion")>> ELSE <<>>)]
  ELSE IF k = "rel" THEN
    LET (* the dump round trip is a relation between two logged states: it is also judged when the dumped terminal has
           left the specification's domain (a buffer with a stale width, ...), as long as its rows can be read at all *)
        StateOf(x) == IF IsLimp(x) THEN x.st ELSE x
        limpOK == /\ e.name = "ObsEq" /\ \E i \in 1..Len(e.slots) : IsLimp(vts[e.slots[i]])
                  /\ \A i \in 1..Len(e.slots) : LET x == vts[e.slots[i]] IN
                       x # Dead /\ LET t == StateOf(x).t IN t.rows >= 1 /\ t.cols >= 1 /\ Len(t.buf.lines) >= t.rows /\ Len(t.other.lines) >= t.other.rows /\ t.other.rows >= 1
        a == StateOf(vts[e.slots[1]])  b == StateOf(vts[e.slots[2]])
        alive == limpOK \/ \A i \in 1..Len(e.slots) : ~Gone(vts[e.slots[i]])
        s1 == e.slots[1]
        (* a C11 failure is attributed to a listed finding only if the dump-time state is in the class AND the
           restored terminal is exactly what the pinned dump() (mirrored by Dump.tla) restores to *)
        exactNow == gh[s1].dmirror \/ (gh[s1].dstate # NoLine /\ Pub(b) = Pub(Restored(gh[s1].dstate.c[1])))
        exact == IF gh[s1].dstage = "dumped" THEN exactNow ELSE gh[s1].dexact
        gh2 == IF alive /\ e.name = "ObsEq" /\ gh[s1].dstage = "dumped"
               THEN [gh EXCEPT ![s1].dstage = "restored", ![s1].dexact = exactNow] ELSE gh
    IN [vts |-> vts, gh |-> gh2,
        msgs |-> IF ~alive
                 THEN (* the original panicked on a continuation that the restored terminal survived, or the other way round *)
                      (IF e.name = "ObsEq" /\ Len(e.slots) = 2 /\ ((vts[e.slots[1]] = Dead) # (vts[e.slots[2]] = Dead))
                       THEN <<Msg("FAIL C11", ll, "one of the two terminals (original / restored from its dump) panicked on the continuation, the other did not")>> ELSE <<>>)
                 ELSE CASE e.name = "ObsEq" -> (IF ObsEq(a, b) /\ HiddenEq(a, b) THEN <<>>
                                                 ELSE IF gh[s1].dclass # {} /\ exact THEN <<Msg("KNOWN C11", ll, "classes=" \o S(gh[s1].dclass))>>
                                                 ELSE <<Msg("FAIL C11", ll, "restored terminal differs: " \o S(DiffFields(Pub(a), Pub(b))) \o " hidden: " \o S(DiffFields(Hidden(a), Hidden(b)))
                                                            \o (IF gh[s1].dclass # {} THEN " (in class " \o S(gh[s1].dclass) \o " but not the known failure)" ELSE ""))>>)
                        [] e.name = "FreshEq" -> (IF FreshEq(a, b) /\ gh[e.slots[1]].lastClean THEN <<>>
                                                   ELSE IF FreshEq(a, b) THEN <<Msg("FAIL C19", ll, "after RIS the parser still holds parameters of an earlier sequence")>> ELSE <<Msg("FAIL C19", ll, "differs from a fresh terminal: " \o S(TermDiff(NoDirty(a).t, NoDirty(b).t)))>>)
                        [] e.name = "ChunkEq" -> (IF ChunkEq(a, b) /\ ChunkEq(a, vts[e.slots[3]]) THEN <<>> ELSE <<Msg("FAIL C12", ll, "chunking changes the outcome: " \o S(TermDiff(Core(a), Core(b))) \o S(TermDiff(Core(a), Core(vts[e.slots[3]]))) \o S(a.p = b.p) \o S(a.t.buf.lines = b.t.buf.lines))>>)
                        [] e.name = "ChunkEqFlushed" -> (IF ChunkEqFlushed(a, b) /\ ChunkEqFlushed(a, vts[e.slots[3]]) THEN <<>> ELSE <<Msg("FAIL C12", ll, "chunking changes the outcome (after flush)")>>)
                        [] e.name = "NoLoss" ->
                             (IF gh[e.slots[1]].ris \/ gh[e.slots[1]].resized \/ a.t.alt THEN <<>>
                              ELSE IF NoLoss(gh[e.slots[1]].drained, a, b) THEN <<>>
                              ELSE <<Msg("FAIL C14", ll, "drained ++ lines differs from the unlimited terminal")>>)
                        [] e.name = "TextOK" ->
                             LET inp == Rec[ll - 1].v
                                 bad == {i \in 1..Len(e.slots) : ~TextOK(gh[e.slots[i]].lastText, inp)}
                                 badU == {i \in 1..Len(e.slots) : ~UnwrapOK(vts[e.slots[i]], inp)}
                             IN (IF bad = {} THEN <<>> ELSE <<Msg("FAIL C09", ll, "text() differs from the input lines in slots " \o S(bad))>>)
                                \o (IF badU = {} THEN <<>> ELSE <<Msg("FAIL C09", ll, "unwrapped lines() differ from the input lines in slots " \o S(badU))>>)
                        [] OTHER -> <<>>]
  ELSE [vts |-> vts, gh |-> gh, msgs |-> <<>>]

\* ------------------------------------------------- stand-alone parser (C03)
ParserRun(p0, s) ==          \* -> [p, outs]
  FoldLeft(LAMBDA acc, c : LET r == Step(acc.p, c) IN [p |-> r.p, outs |-> Append(acc.outs, r.out)],
           [p |-> p0, outs |-> <<>>], s)
(* sweep: the input character abstracted as -2 ("self"), on both sides alike    *)
Abs(r, c) == [out |-> IF r.out.f = "Print" /\ r.out.a[1] = c THEN F1("Print", -2) ELSE r.out,
              st |-> IF r.p.inter = c THEN [r.p EXCEPT !.inter = -2] ELSE r.p]
SweepPoints(lo, hi) ==
  IF hi - lo < 4096 THEN lo..hi
  ELSE (lo..Min2(hi, lo + 255)) \cup (({hi} \cup {lo + ((hi - lo) \div 97) * k : k \in 1..96} \cup {55295, 57344, 65535, 65536}) \cap (lo..hi))
HandleParser(ll, e) ==
  IF e.ev = "pnew" THEN [pp |-> InitP, msgs |-> <<>>]
  ELSE IF e.ev = "pf" THEN
    LET r == ParserRun(pp, e.s)
        ok == OutsEq(r.outs, e.outs) /\ ParserLive(r.p) = ParserLive(e.st)
        firstBad == IF OutsEq(r.outs, e.outs) THEN 0 ELSE CHOOSE i \in 1..Len(e.s) : ~FnEq(r.outs[i], e.outs[i]) /\ \A j \in 1..(i - 1) : FnEq(r.outs[j], e.outs[j])
    IN [pp |-> e.st,
        msgs |-> (IF ok THEN <<>> ELSE <<Msg("CONF", ll, "what=parser owners={\"C03\"} first-bad-char=" \o S(firstBad)
                                             \o " spec=" \o ToJson([outs |-> r.outs, p |-> r.p]))>>)
                 \o (IF e.clean THEN <<>> ELSE <<Msg("FAIL C03", ll, "parser parameters not clean beyond the live prefix")>>)
                 \o (LET tm == TokenMeaning(e.s) n == Len(e.outs) IN
                     IF tm.known /\ n = Len(e.s)
                        /\ ~(FnEq(e.outs[n], tm.fn) /\ (\A i \in 1..(n - 1) : e.outs[i].f = "None") /\ e.st.state = "Ground")
                     THEN <<Msg("FAIL C03", ll, "dispatch differs from the meaning of the sequence as written: " \o ToJson(tm.fn))>> ELSE <<>>)]
  ELSE \* "sw"
    LET bgp == ParserRun(InitP, e.bg).p
        exp == [out |-> e.out, st |-> e.st]
        pts == SweepPoints(e.lo, e.hi)
        bad == {c \in pts : ~(c \in 55296..57343) /\ LET x == Abs(Step(bgp, c), c) IN ~(FnEq(x.out, exp.out) /\ ParserLive(x.st) = ParserLive(exp.st))}
        wide == e.hi - e.lo >= 4096       \* a wide run is examined at every point below lo + 256 and sampled above:
                                          \* Step uses a character >= U+00A0 only as payload (HighIsFinal)
    IN [pp |-> pp,
        msgs |-> (IF bad = {} THEN <<>> ELSE <<Msg("CONF", ll, "what=sweep owners={\"C03\"} state=" \o bgp.state \o " chars=" \o S(bad))>>)
                 \o (IF wide /\ e.lo + 255 < 160 THEN <<Msg("CONF", ll, "what=sweep owners={\"C03\"} a run wholly below U+00A0 spans more than 4096 code points")>> ELSE <<>>)
                 \o (IF e.clean THEN <<>> ELSE <<Msg("FAIL C03", ll, "parser parameters not clean beyond the live prefix")>>)]

Bump(c, tags) == FoldLeft(LAMBDA acc, tg : IF tg \in DOMAIN acc THEN [acc EXCEPT ![tg] = @ + 1] ELSE acc @@ (tg :> 1), c, tags)
(* which predicates an event exercises *)
Tags(e, prevs, p0) ==
  IF e.ev = "pf" THEN <<"conformance:parser">> \o (IF TokenMeaning(e.s).known THEN <<"TokenMeaning">> ELSE <<>>)
  ELSE IF e.ev = "sw" THEN <<"conformance:sweep-run">>
  ELSE IF e.ev = "rel" THEN <<"relation:" \o e.name>>
  ELSE IF e.ev = "tcrel" THEN <<"relation:CollectorEq">>
  ELSE IF e.ev \in {"tcfs", "tcflush"} THEN <<"conformance:collector">>
  ELSE IF e.ev = "text" THEN <<"conformance:text">>
  ELSE IF e.ev = "dump" THEN <<"conformance:dump-mirror">>
  ELSE IF e.ev = "q" THEN <<"conformance:accessors">>
  ELSE IF e.ev = "rs" THEN <<"conformance:resize", "GeomOK", "ChangesSound", "Bound">>
                           \o (IF ~Gone(prevs) /\ ~prevs.t.alt /\ prevs.t.lim = -1 THEN <<"ResizeTextOK">> ELSE <<>>)
  ELSE IF e.ev = "fc" THEN <<"conformance:feed", "GeomOK">>
  ELSE IF e.ev = "fs" THEN
       <<"conformance:feed_str", "GeomOK", "ChangesSound", "Bound">>
       \o (IF ~Gone(prevs) THEN
             LET fns == Functions(prevs.p, e.s) IN
             (IF TokenMeaning(e.s).known THEN <<"TokenMeaning">> \o (IF TokenMeaning(e.s).fn.f = "None" THEN <<"InertOK">> ELSE <<>>) ELSE <<>>)
             \o (IF fns = <<>> /\ e.s # <<>> THEN <<"inert-call">> ELSE <<>>)
             \o (IF Len(fns) = 1 THEN <<"fn:" \o fns[1].f>> \o (IF StepProp(prevs.t, fns[1]) # "none" THEN <<"StepOK:" \o StepProp(prevs.t, fns[1])>> ELSE <<>>) ELSE <<>>)
           ELSE <<>>)
  ELSE IF e.ev = "panic" THEN <<"panic">>
  ELSE <<>>
\* ------------------------------------------------------ util::TextCollector (C14, C09)
HandleTc(ll, e) ==
  IF e.ev = "tcnew" THEN [tcs |-> Append(tcs, [vt |-> Fresh(e.cols, e.rows, e.lim), carry |-> <<>>, acc |-> <<>>, adrift |-> FALSE]), msgs |-> <<>>]
  ELSE IF e.ev = "tcfs" THEN
    (* The terminal inside the collector is logged (hook).  Where it took the step the specification takes, the  *)
    (* strings handed out must be the unwrapping of the lines that step drains.  Where it did not (a divergence  *)
    (* of the terminal itself - judged on the Vt traces, possibly a silent point), nothing can be said about     *)
    (* this call's output; the comparison continues from the logged state, with the carry re-derived from what  *)
    (* the collector has handed out so far being impossible, the collector is marked "adrift" and only the       *)
    (* relational check (tcrel: same text under every limit and chunking) speaks from then on.                   *)
    LET c == tcs[e.tc]  r == FeedStr(c.vt, e.s)  u == Unwrap(r.dr, c.carry)
        same == Normal(r.vt.t, r.dr) = Normal(e.st.t, r.dr) /\ ParserLive(r.vt.p) = ParserLive(e.st.p)
        adrift == c.adrift \/ ~same
    IN
    [tcs |-> [tcs EXCEPT ![e.tc] = [vt |-> IF adrift THEN e.st ELSE r.vt, carry |-> u.carry, acc |-> c.acc \o e.out, adrift |-> adrift]],
     msgs |-> IF adrift \/ u.out = e.out THEN <<>> ELSE <<Msg("CONF", ll, "what=collector owners={\"C09\", \"C14\"} TextCollector::feed_str yields " \o S(Len(e.out)) \o " lines, specification " \o S(Len(u.out)))>>]
  ELSE IF e.ev = "tcflush" THEN
    LET c == tcs[e.tc]  want == CollectorFlush(c.vt.t.buf.lines, c.carry) IN
    [tcs |-> [tcs EXCEPT ![e.tc].acc = @ \o e.out],
     msgs |-> IF c.adrift \/ want = e.out THEN <<>> ELSE <<Msg("CONF", ll, "what=collector owners={\"C09\", \"C14\"} TextCollector::flush differs from the specification")>>]
  ELSE \* tcrel: every collector of the list produced the same text
    [tcs |-> tcs,
     msgs |-> IF \A i \in 2..Len(e.tcs) : DropTrailingEmpty(tcs[e.tcs[i]].acc) = DropTrailingEmpty(tcs[e.tcs[1]].acc) THEN <<>>
              ELSE <<Msg("FAIL C14", ll, "TextCollector text depends on the scrollback limit or the chunking")>>]

TraceInit == l = 1 /\ vts = <<>> /\ gh = <<>> /\ pp = InitP /\ cnt = <<>> /\ tcs = <<>>
TraceNext ==
  /\ l <= Len(Rec)
  /\ l' = l + 1
  /\ cnt' = Bump(cnt, Tags(Rec[l], IF "slot" \in DOMAIN Rec[l] /\ Rec[l].ev \in {"fs", "fc", "rs"} /\ Rec[l].slot <= Len(vts) THEN vts[Rec[l].slot] ELSE Dead, pp))
  /\ (l = Len(Rec) => PrintT("@@ COUNTS " \o ToJson(cnt')))
  /\ IF Rec[l].ev \in {"tcnew", "tcfs", "tcflush", "tcrel"}
     THEN LET h == HandleTc(l, Rec[l]) IN
          /\ tcs' = h.tcs /\ UNCHANGED <<vts, gh, pp>>
          /\ \A i \in 1..Len(h.msgs) : PrintT(h.msgs[i])
     ELSE IF Rec[l].ev \in {"pnew", "pf", "sw"}
     THEN LET h == HandleParser(l, Rec[l]) IN
          /\ pp' = h.pp /\ tcs' = tcs /\ UNCHANGED <<vts, gh>>
          /\ \A i \in 1..Len(h.msgs) : PrintT(h.msgs[i])
     ELSE LET h == Handle(l, Rec[l]) IN
          /\ vts' = h.vts
          /\ gh' = h.gh
          /\ pp' = pp
          /\ tcs' = IF Rec[l].ev = "ep" THEN <<>> ELSE tcs
          /\ \A i \in 1..Len(h.msgs) : PrintT(h.msgs[i])
TraceSpec == TraceInit /\ [][TraceNext]_<<l, vts, gh, pp, cnt, tcs>>

(* Every event must have been consumed: initial state + one state per event.    *)
TraceAccepted ==
  LET d == TLCGet("stats").diameter IN
  IF d = Len(Rec) + 1 THEN PrintT("@@ ACCEPTED events=" \o S(Len(Rec)))
  ELSE PrintT("@@ STUCK at event " \o S(d)) /\ FALSE
=============================================================================
