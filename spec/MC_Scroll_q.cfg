SPECIFICATION Spec
INVARIANT AllOK
VIEW McView
CHECK_DEADLOCK FALSE
CONSTANTS
  Sizes <- ScrollSizesQ
  Limits <- LimMix
  Fills <- ScrollInitFills
  Alphabet <- ScrollAlphabet
  Resizes <- NoResize
  MaxDepth = 2
  Emit = TRUE
  CheckDump = FALSE
  ExcuseKnown = TRUE
