SPECIFICATION Spec
INVARIANT AllOK
VIEW McView
CHECK_DEADLOCK FALSE
CONSTANTS
  Sizes <- PrintRegionSizes
  Limits <- Lim01
  Fills <- NoFill
  Alphabet <- PrintRegionAlphabet
  Resizes <- NoResize
  MaxDepth = 6
  Emit = TRUE
  CheckDump = FALSE
  ExcuseKnown = TRUE
