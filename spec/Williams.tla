------------------------------- MODULE Williams -------------------------------
(* Paul Williams' DEC-compatible parser diagram (vt100.net/emu/dec_ansi_parser)  *)
(* as DATA: for every state and every input class, the kind of action and the    *)
(* next state - transcribed from the published diagram, not from avt - plus the  *)
(* four deviations the property C03 lists:                                       *)
(*   ColonSubParams   ':' inside CSI parameters is a parameter character         *)
(*   BelEndsOsc       BEL ends an OSC string                                      *)
(*   C1AreCodePoints  C1 controls are the code points U+0080-U+009F               *)
(*   HighIsFinal      every code point >= U+00A0 is handled like 'A' (0x41)       *)
(* Lemma WilliamsAgree (checked by TLC in MCParser for every reachable parser     *)
(* state and every character class): Parser.tla's Step takes exactly the table's  *)
(* transition.  Together with the exhaustive sweep (real parser = Step on all     *)
(* 1,112,064 scalar values in every state) this gives: real parser = table.       *)
EXTENDS Parser

C0x == (0..23) \cup {25} \cup (28..31)            \* C0 without CAN, SUB, ESC
T(kind, next) == [kind |-> kind, next |-> next]   \* kind: "print" "execute" "dispatch" "none"

(* "anywhere" transitions; NoRow when none applies                                *)
Anywhere(c) ==
  IF c \in {24, 26} \/ c \in 128..143 \/ c \in 145..151 \/ c \in {153, 154} THEN T("execute", "Ground")
  ELSE IF c = 156 THEN T("none", "Ground")
  ELSE IF c = 27 THEN T("none", "Escape")
  ELSE IF c \in {152, 158, 159} THEN T("none", "SosPmApcString")
  ELSE IF c = 144 THEN T("none", "DcsEntry")
  ELSE IF c = 157 THEN T("none", "OscString")
  ELSE IF c = 155 THEN T("none", "CsiEntry")
  ELSE T("none", "NoRow")

(* the per-state rows; c is the routing character (after HighIsFinal)             *)
Row(st, c) ==
  CASE st = "Ground" -> IF c \in C0x THEN T("execute", st) ELSE IF c \in 32..127 THEN T("print", st) ELSE T("none", st)
    [] st = "Escape" ->
         IF c \in C0x THEN T("execute", st) ELSE IF c = 127 THEN T("none", st)
         ELSE IF c \in 32..47 THEN T("none", "EscapeIntermediate")
         ELSE IF c = 91 THEN T("none", "CsiEntry") ELSE IF c = 93 THEN T("none", "OscString")
         ELSE IF c = 80 THEN T("none", "DcsEntry") ELSE IF c \in {88, 94, 95} THEN T("none", "SosPmApcString")
         ELSE IF c \in 48..126 THEN T("dispatch", "Ground") ELSE T("none", st)
    [] st = "EscapeIntermediate" ->
         IF c \in C0x THEN T("execute", st) ELSE IF c \in 32..47 THEN T("none", st) ELSE IF c = 127 THEN T("none", st)
         ELSE IF c \in 48..126 THEN T("dispatch", "Ground") ELSE T("none", st)
    [] st = "CsiEntry" ->
         IF c \in C0x THEN T("execute", st) ELSE IF c = 127 THEN T("none", st)
         ELSE IF c \in 32..47 THEN T("none", "CsiIntermediate")
         ELSE IF c = 58 THEN T("none", "CsiIgnore")
         ELSE IF c \in 48..57 \/ c = 59 THEN T("none", "CsiParam")
         ELSE IF c \in 60..63 THEN T("none", "CsiParam")
         ELSE IF c \in 64..126 THEN T("dispatch", "Ground") ELSE T("none", st)
    [] st = "CsiParam" ->
         IF c \in C0x THEN T("execute", st) ELSE IF c = 127 THEN T("none", st)
         ELSE IF c \in 48..59 THEN T("none", st)                       \* ColonSubParams: 0x3A too (Williams: -> CsiIgnore)
         ELSE IF c \in 60..63 THEN T("none", "CsiIgnore")
         ELSE IF c \in 32..47 THEN T("none", "CsiIntermediate")
         ELSE IF c \in 64..126 THEN T("dispatch", "Ground") ELSE T("none", st)
    [] st = "CsiIntermediate" ->
         IF c \in C0x THEN T("execute", st) ELSE IF c = 127 THEN T("none", st)
         ELSE IF c \in 32..47 THEN T("none", st)
         ELSE IF c \in 48..63 THEN T("none", "CsiIgnore")
         ELSE IF c \in 64..126 THEN T("dispatch", "Ground") ELSE T("none", st)
    [] st = "CsiIgnore" ->
         IF c \in C0x THEN T("execute", st) ELSE IF c \in 64..126 THEN T("none", "Ground") ELSE T("none", st)
    [] st = "DcsEntry" ->
         IF c \in 32..47 THEN T("none", "DcsIntermediate")
         ELSE IF c = 58 THEN T("none", "DcsIgnore")
         ELSE IF c \in 48..57 \/ c = 59 THEN T("none", "DcsParam")
         ELSE IF c \in 60..63 THEN T("none", "DcsParam")
         ELSE IF c \in 64..126 THEN T("none", "DcsPassthrough") ELSE T("none", st)
    [] st = "DcsParam" ->
         IF c \in 48..57 \/ c = 59 THEN T("none", st)
         ELSE IF c = 58 \/ c \in 60..63 THEN T("none", "DcsIgnore")
         ELSE IF c \in 32..47 THEN T("none", "DcsIntermediate")
         ELSE IF c \in 64..126 THEN T("none", "DcsPassthrough") ELSE T("none", st)
    [] st = "DcsIntermediate" ->
         IF c \in 32..47 THEN T("none", st)
         ELSE IF c \in 48..63 THEN T("none", "DcsIgnore")
         ELSE IF c \in 64..126 THEN T("none", "DcsPassthrough") ELSE T("none", st)
    [] st = "OscString" -> IF c = 7 THEN T("none", "Ground") ELSE T("none", st)        \* BelEndsOsc
    [] OTHER -> T("none", st)                                      \* DcsPassthrough, DcsIgnore, SosPmApcString

WTable(st, c) ==
  LET c2 == IF c >= 160 THEN 65 ELSE c  a == Anywhere(c2) IN       \* HighIsFinal
  IF a.next # "NoRow" THEN a ELSE Row(st, c2)

(* Step takes the table's transition                                              *)
AgreesAt(p, c) ==
  LET r == Step(p, c)  w == WTable(p.state, c) IN
  /\ r.p.state = w.next
  /\ (w.kind = "print" => r.out = F1("Print", c))
  /\ (w.kind = "execute" => r.out = Execute(c))
  /\ (w.kind = "none" => r.out = None)
WilliamsChars == (0..255) \cup {256, 8364, 55295, 57344, 65533, 1114111}
WilliamsAgree(p) == \A c \in WilliamsChars : AgreesAt(p, c)
=============================================================================
