SPECIFICATION Spec
INVARIANT AllOK
VIEW McViewPath
CHECK_DEADLOCK FALSE
CONSTANTS
  Sizes <- BatchSizes
  Limits <- Lim1
  Fills <- BatchFills
  Alphabet <- BatchAlphabet
  Resizes <- NoResize
  MaxDepth = 4
  Emit = TRUE
  CheckDump = FALSE
  ExcuseKnown = TRUE
