SPECIFICATION Spec
INVARIANT AllOK
VIEW McView
CHECK_DEADLOCK FALSE
CONSTANTS
  Sizes <- CtxShrinkSizes
  Limits <- Lim0
  Fills <- CtxShrinkFills
  Alphabet <- CtxShrinkAlphabet
  Resizes <- CtxShrinkResizes
  MaxDepth = 4
  Emit = TRUE
  CheckDump = FALSE
  ExcuseKnown = TRUE
