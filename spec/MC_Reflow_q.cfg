SPECIFICATION Spec
INVARIANT AllOK
VIEW McView
CHECK_DEADLOCK FALSE
CONSTANTS
  Sizes <- ReflowSizes
  Limits <- LimInf
  Fills <- ReflowFills
  Alphabet <- ReflowAlphabet
  Resizes <- ReflowResizes
  MaxDepth = 3
  Emit = TRUE
  CheckDump = FALSE
  ExcuseKnown = TRUE
