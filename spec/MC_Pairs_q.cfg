SPECIFICATION Spec
INVARIANT AllOK
VIEW McView
CHECK_DEADLOCK FALSE
CONSTANTS
  Sizes <- PairsSizes
  Limits <- Lim1
  Fills <- PairsFills
  Alphabet <- PairsAlphabet
  Resizes <- PairsResizes
  MaxDepth = 2
  Emit = TRUE
  CheckDump = FALSE
  ExcuseKnown = TRUE
