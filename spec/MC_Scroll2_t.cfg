SPECIFICATION Spec
INVARIANT AllOK
VIEW McView
CHECK_DEADLOCK FALSE
CONSTANTS
  Sizes <- Scroll2Sizes
  Limits <- LimMix
  Fills <- Scroll2Fills
  Alphabet <- Scroll2Alphabet
  Resizes <- NoResize
  MaxDepth = 4
  Emit = TRUE
  CheckDump = FALSE
  ExcuseKnown = TRUE
