SPECIFICATION Spec
INVARIANT AllOK
VIEW McView
CHECK_DEADLOCK FALSE
CONSTANTS
  Sizes <- DumpSizes
  Limits <- Lim0
  Fills <- DumpFills
  Alphabet <- DumpAlphabet
  Resizes <- NoResize
  MaxDepth = 4
  Emit = TRUE
  CheckDump = TRUE
