------------------------------- MODULE MCChunk -------------------------------
(* C12 on the specification, exhaustively: every input string of at most MaxLen *)
(* symbols over an alphabet that contains the pieces of escape sequences, fed    *)
(* (a) whole, (b) cut at EVERY subset of positions, (c) one character at a time   *)
(* through feed(); all must agree (ChunkEq), and after a flushing empty feed_str  *)
(* also in lines() (ChunkEqFlushed).                                              *)
EXTENDS Props, TLC

CONSTANTS Symbols, MaxLen, Sizes, Limits
VARIABLES s, ok
vars == <<s, ok>>

(* feed the pieces of str delimited by the cut set (positions after which to cut) *)
FeedPieces(v0, str, cuts) ==
  LET F(acc, i) == IF i \in cuts \/ i = Len(str)
                   THEN [v |-> FeedStr(acc.v, SubSeq(str, acc.from, i)).vt, from |-> i + 1]
                   ELSE acc
  IN FoldLeft(F, [v |-> v0, from |-> 1], Iota(Len(str))).v
ChunkAll(str) ==
  \A sz \in Sizes, lim \in Limits :
    LET f == Fresh(sz[1], sz[2], lim)
        whole == FeedStr(f, str).vt
        chars == FeedChars(f, str)
        fl(v) == FeedStr(v, <<>>).vt
    IN /\ \A cuts \in SUBSET (1..(Len(str) - 1)) : ChunkEq(whole, FeedPieces(f, str, cuts))
       /\ ChunkEq(whole, chars)
       /\ ChunkEqFlushed(fl(whole), fl(chars))
Init == s = <<>> /\ ok = TRUE
Next == Len(s) < MaxLen /\ \E c \in Symbols : s' = Append(s, c) /\ ok' = (ok /\ ChunkAll(Append(s, c)))
Spec == Init /\ [][Next]_vars
AllOK == ok
ChunkSymbols == {97, 10, 27, 91, 49, 59, 72, 109, 63, 55, 104, 77}     \* a LF ESC [ 1 ; H m ? 7 h M
ChunkSizes == {<<2, 2>>, <<1, 1>>}
ChunkLimits == {0, -1}
=============================================================================
