SPECIFICATION Spec
INVARIANT AllOK
VIEW McView
CHECK_DEADLOCK FALSE
CONSTANTS
  Sizes <- RisSizes
  Limits <- Lim01
  Fills <- NoFill
  Alphabet <- RisAlphabet
  Resizes <- RisResizes
  MaxDepth = 3
  Emit = TRUE
  CheckDump = FALSE
  ExcuseKnown = TRUE
