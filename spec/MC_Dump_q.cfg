SPECIFICATION Spec
INVARIANT AllOK
VIEW McView
CHECK_DEADLOCK FALSE
CONSTANTS
  Sizes <- DumpSizesQ
  Limits <- Lim0
  Fills <- DumpFills
  Alphabet <- DumpAlphabet
  Resizes <- NoResize
  MaxDepth = 3
  Emit = TRUE
  CheckDump = TRUE
