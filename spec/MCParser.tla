------------------------------ MODULE MCParser ------------------------------
(* Bounded model of the parser alone (C03, C20): every reachable parser state    *)
(* within MaxLen input characters over a representative alphabet.  Checked on     *)
(* every transition:                                                              *)
(*  Memoryless  - when the characters since the last introducer form a complete   *)
(*                CSI / ESC sequence, the dispatch is exactly its meaning as      *)
(*                written (ParserRef), whatever came before;                      *)
(*  EscFeIsC1   - ESC x (x in @.._) acts like the C1 control x + 0x40;            *)
(*  Strings     - string states emit nothing (except an interrupting C1/C0        *)
(*                execute) and are left only by ST, BEL (OSC), ESC, CAN, SUB, C1. *)
EXTENDS ParserRef, Williams, TLC

CONSTANTS Alphabet, MaxLen
VARIABLES p, raw, n, ok
vars == <<p, raw, n, ok>>

FnSame(x, y) == x.f = y.f /\ x.a = y.a
StringStates == {"OscString", "SosPmApcString", "DcsPassthrough", "DcsIgnore"}
Leavers == {27, 24, 26, 156} \cup 128..159
EscFeIsC1(q) ==
  \A x \in 64..95 :
    LET a == Step(Step(q, 27).p, x)  b == Step(q, x + 64) IN
    FnSame(a.out, b.out) /\ a.p.state = b.p.state
StepOKp(q, rw, c, r) ==
  LET s == Append(rw, c)  tm == TokenMeaning(s) IN
  /\ (rw # <<>> /\ tm.known) => (FnSame(r.out, tm.fn) /\ r.p.state = "Ground")
  /\ (q.state \in StringStates /\ r.p.state # q.state) => (c \in Leavers \/ (q.state = "OscString" /\ c = 7))
  /\ (q.state \in StringStates /\ c \notin Leavers) => r.out = None
  /\ Len(r.p.params) <= PARAMS_LEN /\ \A i \in 1..Len(r.p.params) : Len(r.p.params[i]) <= PARTS_LEN
  /\ EscFeIsC1(r.p)

(* the transition function is Williams' table (+ the four named deviations), in every state, for every
   character class - whatever the collected parameters and intermediate are *)
ASSUME \A st \in States :
         /\ WilliamsAgree([InitP EXCEPT !.state = st])
         /\ WilliamsAgree([state |-> st, params |-> <<<<1>>, <<2, 3>>>>, inter |-> 63])
ASSUME PrintT("@@ WILLIAMS-AGREE all 14 states x " \o ToString(Cardinality(WilliamsChars)) \o " characters x 2 backgrounds")

Init == p = InitP /\ raw = <<>> /\ n = 0 /\ ok = TRUE
Next ==
  /\ n < MaxLen
  /\ \E c \in Alphabet :
       LET r == Step(p, c) IN
       /\ p' = r.p
       /\ n' = n + 1
       /\ raw' = IF c \in {27, 155} THEN <<c>>
                 ELSE IF raw = <<>> \/ r.p.state = "Ground" \/ Len(raw) >= 9 THEN <<>> ELSE Append(raw, c)
       /\ ok' = (ok /\ StepOKp(p, raw, c, r))
Spec == Init /\ [][Next]_vars
AllOK == ok
PView == <<p, raw, ok>>
ParserAlphabet == {27, 155, 91, 48, 49, 57, 59, 58, 63, 62, 32, 33, 36, 104, 109, 72, 112, 99, 24, 7, 93, 80, 92, 97, 156, 10, 233, 144}
=============================================================================
