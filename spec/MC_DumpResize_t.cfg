SPECIFICATION Spec
INVARIANT AllOK
VIEW McView
CHECK_DEADLOCK FALSE
CONSTANTS
  Sizes <- DumpResizeSizes
  Limits <- Lim0
  Fills <- DumpResizeFills
  Alphabet <- DumpResizeAlphabet
  Resizes <- DumpResizeResizes
  MaxDepth = 5
  Emit = TRUE
  CheckDump = TRUE
  ExcuseKnown = TRUE
