SPECIFICATION Spec
INVARIANT AllOK
VIEW McView
CHECK_DEADLOCK FALSE
CONSTANTS
  Sizes <- CtxWrapSizes
  Limits <- Lim0
  Fills <- NoFill
  Alphabet <- CtxWrapAlphabet
  Resizes <- CtxWrapResizes
  MaxDepth = 5
  Emit = TRUE
  CheckDump = FALSE
  ExcuseKnown = TRUE
