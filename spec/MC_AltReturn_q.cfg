SPECIFICATION Spec
INVARIANT AllOK
VIEW McView
CHECK_DEADLOCK FALSE
CONSTANTS
  Sizes <- AltReturnSizes
  Limits <- Lim0
  Fills <- NoFill
  Alphabet <- AltReturnAlphabet
  Resizes <- AltReturnResizes
  MaxDepth = 5
  Emit = TRUE
  CheckDump = FALSE
  ExcuseKnown = TRUE
