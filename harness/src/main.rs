//! Conformance harness for the avt TLA+ specification.
//!
//!   harness gen <driver> --seed N --episodes N --out FILE [--maxc N --maxr N]
//!       drive the real Vt with the driver of one property, record an ndjson trace
//!   harness stress --seed N --secs N            (C01: un-validated panic / hang search)
//!   harness sweep --out FILE [--backgrounds N]  (C03: exhaustive parser sweep)
//!   harness replay FILE                         (re-execute a replay file, print the states)
//!   harness tlcreplay FILE                      (step TLC-generated behaviours through the real Vt)

mod drivers;
mod gen;
mod obs;
mod replay;
mod session;
mod sweep;

use std::collections::HashMap;

pub struct Args {
    pub pos: Vec<String>,
    pub kv: HashMap<String, String>,
}

impl Args {
    pub fn num(&self, k: &str, d: u64) -> u64 {
        self.kv.get(k).map(|v| v.parse().expect("numeric argument")).unwrap_or(d)
    }
    pub fn str(&self, k: &str, d: &str) -> String {
        self.kv.get(k).cloned().unwrap_or_else(|| d.to_string())
    }
}

fn main() {
    let mut pos = Vec::new();
    let mut kv = HashMap::new();
    let mut it = std::env::args().skip(1);
    while let Some(a) = it.next() {
        if let Some(k) = a.strip_prefix("--") {
            kv.insert(k.to_string(), it.next().unwrap_or_default());
        } else {
            pos.push(a);
        }
    }
    let args = Args { pos, kv };
    // panics in the code under test are data: keep the default hook quiet
    std::panic::set_hook(Box::new(|_| {}));
    let code = match args.pos.first().map(|s| s.as_str()) {
        Some("gen") => drivers::run(&args),
        Some("stress") => drivers::stress(&args),
        Some("sweep") => sweep::run(&args),
        Some("replay") => replay::replay(&args),
        Some("tlcreplay") => replay::tlc_replay(&args),
        _ => {
            eprintln!("usage: harness gen|stress|sweep|replay|tlcreplay ...");
            2
        }
    };
    std::process::exit(code);
}
