//! A recorded session: slots holding real `Vt`s, every public call logged as one ndjson
//! event after it returns (the linearization point of a sequential library), including
//! on the panic path.

use crate::obs;
use avt::Vt;
use std::fmt::Write as _;
use std::io::Write;
use std::panic::{catch_unwind, AssertUnwindSafe};

pub struct Session<W: Write> {
    pub collectors: Vec<Option<avt::util::TextCollector>>,
    pub out: W,
    pub slots: Vec<Option<Vt>>,
    pub events: u64,
    pub episodes: u64,
    pub panics: u64,
    pub chars_fed: u64,
    pub log_view: bool,
    /// distinct (pre-state, input) pairs whose call changed the state
    pub distinct: std::collections::HashSet<u64>,
    last: Vec<u64>,
    buf: String,
}

fn panic_msg(e: Box<dyn std::any::Any + Send>) -> String {
    if let Some(s) = e.downcast_ref::<&str>() {
        s.to_string()
    } else if let Some(s) = e.downcast_ref::<String>() {
        s.clone()
    } else {
        "?".to_string()
    }
}

fn esc(s: &str) -> String {
    s.chars()
        .map(|c| if c == '"' || c == '\\' || (c as u32) < 32 { ' ' } else { c })
        .collect()
}

impl<W: Write> Session<W> {
    pub fn new(out: W) -> Self {
        Session { collectors: Vec::new(), out, slots: Vec::new(), events: 0, episodes: 0, panics: 0, chars_fed: 0, log_view: false, distinct: Default::default(), last: Vec::new(), buf: String::new() }
    }

    fn emit(&mut self) {
        self.buf.push('\n');
        self.out.write_all(self.buf.as_bytes()).unwrap();
        self.buf.clear();
        self.events += 1;
    }

    pub fn episode(&mut self, drv: &str) {
        self.slots.clear();
        self.collectors.clear();
        self.last.clear();
        self.episodes += 1;
        let _ = write!(self.buf, "{{\"ev\":\"ep\",\"id\":{},\"drv\":\"{}\"}}", self.episodes, drv);
        self.emit();
    }

    fn slot(&mut self, s: usize) -> &mut Vt {
        self.slots[s - 1].as_mut().expect("slot dead")
    }

    pub fn alive(&self, s: usize) -> bool {
        s >= 1 && s <= self.slots.len() && self.slots[s - 1].is_some()
    }

    pub fn vt(&self, s: usize) -> &Vt {
        self.slots[s - 1].as_ref().expect("slot dead")
    }

    fn state(&mut self, s: usize) {
        let vt = self.slots[s - 1].as_ref().unwrap();
        self.buf.push_str(",\"st\":");
        let a = self.buf.len();
        let ex = obs::vt_state(&mut self.buf, vt);
        {
            use std::hash::{Hash, Hasher};
            let mut h = std::collections::hash_map::DefaultHasher::new();
            self.buf[a..].hash(&mut h);
            let now = h.finish();
            while self.last.len() < s {
                self.last.push(0);
            }
            let before = self.last[s - 1];
            if before != now {
                let mut h2 = std::collections::hash_map::DefaultHasher::new();
                before.hash(&mut h2);
                self.buf[..a].hash(&mut h2); // the call and its arguments
                self.distinct.insert(h2.finish());
            }
            self.last[s - 1] = now;
        }
        let _ = write!(self.buf, ",\"clean\":{},\"hook\":{}", ex.clean, ex.hook_agrees);
        if self.log_view {
            self.buf.push_str(",\"view\":");
            obs::lines_public(&mut self.buf, vt.view());
        }
    }

    fn panicked(&mut self, s: usize, op: &str, msg: String, input: Option<&str>) {
        self.panics += 1;
        self.slots[s - 1] = None;
        self.buf.clear();
        let _ = write!(self.buf, "{{\"ev\":\"panic\",\"slot\":{},\"op\":\"{}\",\"msg\":\"{}\"", s, op, esc(&msg));
        if let Some(t) = input {
            // the input of the panicking call: the trace specification works out which functions it carried
            self.buf.push_str(",\"s\":");
            obs::str_cps(&mut self.buf, t);
        }
        self.buf.push('}');
        self.emit();
    }

    /// Vt::builder().size().scrollback_limit().build(); returns the slot number (1-based).
    pub fn new_vt(&mut self, cols: usize, rows: usize, lim: i64) -> usize {
        let vt = if lim < 0 {
            Vt::builder().size(cols, rows).build()
        } else {
            Vt::builder().size(cols, rows).scrollback_limit(lim as usize).build()
        };
        self.slots.push(Some(vt));
        let s = self.slots.len();
        let _ = write!(self.buf, "{{\"ev\":\"new\",\"slot\":{},\"cols\":{},\"rows\":{},\"lim\":{}", s, cols, rows, lim);
        self.state(s);
        self.buf.push('}');
        self.emit();
        s
    }

    /// feed_str; `consume` = collect the returned scrollback (otherwise the Changes value is dropped).
    pub fn feed_str(&mut self, s: usize, text: &str, consume: bool) -> bool {
        if !self.alive(s) {
            return false;
        }
        self.chars_fed += text.chars().count() as u64;
        let r = catch_unwind(AssertUnwindSafe(|| {
            let vt = self.slots[s - 1].as_mut().unwrap();
            let ch = vt.feed_str(text);
            let lines = ch.lines.clone();
            let dr: Vec<avt::Line> = if consume { ch.scrollback.collect() } else { Vec::new() };
            (lines, dr)
        }));
        match r {
            Ok((lines, dr)) => {
                let _ = write!(self.buf, "{{\"ev\":\"fs\",\"slot\":{},\"s\":", s);
                obs::str_cps(&mut self.buf, text);
                let _ = write!(self.buf, ",\"ch\":{:?},\"consumed\":{},\"dr\":", lines, consume);
                obs::lines_public(&mut self.buf, &dr);
                self.state(s);
                self.buf.push('}');
                self.emit();
                true
            }
            Err(e) => {
                self.panicked(s, "feed_str", panic_msg(e), Some(text));
                false
            }
        }
    }

    /// feed() one character at a time, one event for the whole run.
    pub fn feed_chars(&mut self, s: usize, text: &str) -> bool {
        if !self.alive(s) {
            return false;
        }
        self.chars_fed += text.chars().count() as u64;
        let r = catch_unwind(AssertUnwindSafe(|| {
            let vt = self.slots[s - 1].as_mut().unwrap();
            for c in text.chars() {
                vt.feed(c);
            }
        }));
        match r {
            Ok(()) => {
                let _ = write!(self.buf, "{{\"ev\":\"fc\",\"slot\":{},\"s\":", s);
                obs::str_cps(&mut self.buf, text);
                self.state(s);
                self.buf.push('}');
                self.emit();
                true
            }
            Err(e) => {
                self.panicked(s, "feed", panic_msg(e), Some(text));
                false
            }
        }
    }

    pub fn resize(&mut self, s: usize, cols: usize, rows: usize, consume: bool) -> bool {
        if !self.alive(s) {
            return false;
        }
        let r = catch_unwind(AssertUnwindSafe(|| {
            let vt = self.slots[s - 1].as_mut().unwrap();
            let ch = vt.resize(cols, rows);
            let lines = ch.lines.clone();
            let dr: Vec<avt::Line> = if consume { ch.scrollback.collect() } else { Vec::new() };
            (lines, dr)
        }));
        match r {
            Ok((lines, dr)) => {
                let _ = write!(self.buf, "{{\"ev\":\"rs\",\"slot\":{},\"cols\":{},\"rows\":{},\"ch\":{:?},\"consumed\":{},\"dr\":", s, cols, rows, lines, consume);
                obs::lines_public(&mut self.buf, &dr);
                self.state(s);
                self.buf.push('}');
                self.emit();
                true
            }
            Err(e) => {
                self.panicked(s, "resize", panic_msg(e), None);
                false
            }
        }
    }

    /// dump(); returns the string so that the driver can feed it to another slot.
    pub fn dump(&mut self, s: usize) -> Option<String> {
        if !self.alive(s) {
            return None;
        }
        let r = catch_unwind(AssertUnwindSafe(|| self.slots[s - 1].as_ref().unwrap().dump()));
        match r {
            Ok(d) => {
                let _ = write!(self.buf, "{{\"ev\":\"dump\",\"slot\":{},\"out\":", s);
                obs::str_cps(&mut self.buf, &d);
                self.buf.push('}');
                self.emit();
                Some(d)
            }
            Err(e) => {
                self.panicked(s, "dump", panic_msg(e), None);
                None
            }
        }
    }

    pub fn text(&mut self, s: usize) -> bool {
        if !self.alive(s) {
            return false;
        }
        let r = catch_unwind(AssertUnwindSafe(|| {
            let vt = self.slots[s - 1].as_ref().unwrap();
            // ... and the real util::TextUnwrapper over lines(): every finished string, then the flush
            let mut u = avt::util::TextUnwrapper::new();
            let mut un: Vec<String> = Vec::new();
            for l in vt.lines() {
                if let Some(t) = u.push(l) {
                    un.push(t);
                }
            }
            if let Some(t) = u.flush() {
                un.push(t);
            }
            (vt.text(), un)
        }));
        match r {
            Ok((t, un)) => {
                let _ = write!(self.buf, "{{\"ev\":\"text\",\"slot\":{},\"out\":[", s);
                for (i, l) in t.iter().enumerate() {
                    if i > 0 {
                        self.buf.push(',');
                    }
                    obs::str_cps(&mut self.buf, l);
                }
                self.buf.push_str("],\"unwrap\":[");
                for (i, l) in un.iter().enumerate() {
                    if i > 0 {
                        self.buf.push(',');
                    }
                    obs::str_cps(&mut self.buf, l);
                }
                self.buf.push_str("]}");
                self.emit();
                true
            }
            Err(e) => {
                self.panicked(s, "text", panic_msg(e), None);
                false
            }
        }
    }

    /// Read-only queries that must not panic: view, lines, line(n), cursor, size, text, dump,
    /// Line::chunks, Cell::width, Debug renderings.  Logged as a `q` event with a few results.
    pub fn queries(&mut self, s: usize) -> bool {
        if !self.alive(s) {
            return false;
        }
        let r = catch_unwind(AssertUnwindSafe(|| {
            let vt = self.slots[s - 1].as_ref().unwrap();
            let (_c, rows) = vt.size();
            let mut w = 0usize;
            let mut chunks: Vec<Vec<usize>> = Vec::new();
            let mut texts: Vec<String> = Vec::new();
            let mut lens: Vec<usize> = Vec::new();
            for n in 0..rows {
                let l = vt.line(n);
                w += l.cells().iter().map(|c| c.width()).sum::<usize>();
                chunks.push(l.chunks(|a, b| a.pen() != b.pen()).map(|c| c.len()).collect());
                let _ = format!("{:?}", l);
                texts.push(l.text());
                lens.push(l.len());
                let _ = l.is_empty();
                let _ = l.chars().count();
            }
            let _ = vt.view().len();
            let _ = vt.lines().len();
            let cur = vt.cursor();
            let opt: Option<(usize, usize)> = vt.cursor().into();
            let _ = vt.text();
            let _ = vt.dump();
            let _ = format!("{:?}", vt.cursor());
            (w, chunks, texts, lens, cur.visible == opt.is_some())
        }));
        match r {
            Ok((w, chunks, texts, lens, curopt)) => {
                let _ = write!(self.buf, "{{\"ev\":\"q\",\"slot\":{},\"width\":{},\"chunks\":{:?},\"lens\":{:?},\"curopt\":{},\"texts\":", s, w, chunks, lens, curopt);
                self.strings(&texts);
                self.buf.push('}');
                self.emit();
                true
            }
            Err(e) => {
                self.panicked(s, "query", panic_msg(e), None);
                false
            }
        }
    }

    fn strings(&mut self, v: &[String]) {
        self.buf.push('[');
        for (i, l) in v.iter().enumerate() {
            if i > 0 {
                self.buf.push(',');
            }
            obs::str_cps(&mut self.buf, l);
        }
        self.buf.push(']');
    }

    /// util::TextCollector over a fresh Vt; returns the collector number (1-based)
    pub fn tc_new(&mut self, cols: usize, rows: usize, lim: i64) -> usize {
        let vt = if lim < 0 { Vt::builder().size(cols, rows).build() } else { Vt::builder().size(cols, rows).scrollback_limit(lim as usize).build() };
        self.collectors.push(Some(avt::util::TextCollector::new(vt)));
        let k = self.collectors.len();
        let _ = write!(self.buf, "{{\"ev\":\"tcnew\",\"tc\":{},\"cols\":{},\"rows\":{},\"lim\":{}}}", k, cols, rows, lim);
        self.emit();
        k
    }

    pub fn tc_feed(&mut self, k: usize, text: &str) -> bool {
        if self.collectors[k - 1].is_none() {
            return false;
        }
        let r = catch_unwind(AssertUnwindSafe(|| {
            let tc = self.collectors[k - 1].as_mut().unwrap();
            let out: Vec<String> = tc.feed_str(text).collect();
            out
        }));
        match r {
            Ok(out) => {
                let _ = write!(self.buf, "{{\"ev\":\"tcfs\",\"tc\":{},\"s\":", k);
                obs::str_cps(&mut self.buf, text);
                self.buf.push_str(",\"out\":");
                self.strings(&out);
                // the state of the terminal inside the collector (hook): the trace specification continues from it
                self.buf.push_str(",\"st\":");
                let _ = obs::vt_state(&mut self.buf, self.collectors[k - 1].as_ref().unwrap().verif_vt());
                self.buf.push('}');
                self.emit();
                true
            }
            Err(e) => {
                self.collectors[k - 1] = None;
                self.panics += 1;
                self.buf.clear();
                let _ = write!(self.buf, "{{\"ev\":\"panic\",\"slot\":0,\"op\":\"TextCollector::feed_str\",\"msg\":\"{}\"}}", esc(&panic_msg(e)));
                self.emit();
                false
            }
        }
    }

    pub fn tc_flush(&mut self, k: usize) -> bool {
        let tc = match self.collectors[k - 1].take() {
            Some(tc) => tc,
            None => return false,
        };
        let r = catch_unwind(AssertUnwindSafe(move || tc.flush()));
        match r {
            Ok(out) => {
                let _ = write!(self.buf, "{{\"ev\":\"tcflush\",\"tc\":{},\"out\":", k);
                self.strings(&out);
                self.buf.push('}');
                self.emit();
                true
            }
            Err(e) => {
                self.panics += 1;
                let _ = write!(self.buf, "{{\"ev\":\"panic\",\"slot\":0,\"op\":\"TextCollector::flush\",\"msg\":\"{}\"}}", esc(&panic_msg(e)));
                self.emit();
                false
            }
        }
    }

    pub fn tc_rel(&mut self, ks: &[usize]) {
        let _ = write!(self.buf, "{{\"ev\":\"tcrel\",\"tcs\":{:?}}}", ks);
        self.emit();
    }

    /// Ask TLC to evaluate a named relation over the current (logged) states of some slots.
    pub fn rel(&mut self, name: &str, slots: &[usize]) {
        // also when a slot has panicked: for some relations "one of them is dead" is itself a verdict
        if slots.iter().all(|s| *s >= 1 && *s <= self.slots.len()) {
            let _ = write!(self.buf, "{{\"ev\":\"rel\",\"name\":\"{}\",\"slots\":{:?}}}", name, slots);
            self.emit();
        }
    }

    pub fn note(&mut self, key: &str, json_value: &str) {
        let _ = write!(self.buf, "{{\"ev\":\"note\",\"k\":\"{}\",\"v\":{}}}", key, json_value);
        self.emit();
    }

    #[allow(dead_code)]
    pub fn slot_mut(&mut self, s: usize) -> &mut Vt {
        self.slot(s)
    }
}
