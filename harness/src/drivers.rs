//! Property-specific drivers.  Each realises the quantifier text of one property as
//! boundary-biased random episodes (plus hand-written seeds for the histories the property
//! names).  All randomness derives from --seed.  The drivers assert nothing: every
//! judgement is made by TLC on the recorded trace (spec/Trace.tla).

use crate::gen::{self, Rng, Weights, GENERAL};
use crate::session::Session;
use crate::Args;
use std::fs::File;
use std::io::{BufWriter, Write};

type S = Session<BufWriter<File>>;

fn w(f: impl Fn(&mut Weights)) -> Weights {
    let mut x = GENERAL;
    f(&mut x);
    x
}

/// A new size, often in a particular relation to the current one (+-1, double, half, one dimension only).
fn next_size(r: &mut Rng, c0: usize, r0: usize, maxc: usize, maxr: usize) -> (usize, usize) {
    let rel = |r: &mut Rng, x: usize, max: usize| -> usize {
        let v = match r.n(6) {
            0 => x + 1,
            1 => x.saturating_sub(1),
            2 => x * 2,
            3 => x / 2,
            4 => x,
            _ => r.range(1, max),
        };
        v.max(1).min(max.max(2) * 2)
    };
    match r.n(5) {
        0 => {
            if r.chance(1, 2) {
                (r.range(1, maxc + 3), r0)
            } else {
                (c0, r.range(1, maxr + 2))
            }
        }
        1 | 2 => (rel(r, c0, maxc + 3), rel(r, r0, maxr + 2)),
        _ => (r.range(1, maxc + 3), r.range(1, maxr + 2)),
    }
}

fn maybe_resize(s: &mut S, r: &mut Rng, slot: usize, maxc: usize, maxr: usize, num: u64, den: u64) -> bool {
    if r.chance(num, den) {
        let (c0, r0) = s.vt(slot).size();
        let rel = |r: &mut Rng, x: usize, max: usize| -> usize {
            // sizes in a particular relation to the current one: +-1, double, half, same
            let v = match r.n(6) {
                0 => x + 1,
                1 => x.saturating_sub(1),
                2 => x * 2,
                3 => x / 2,
                4 => x,
                _ => r.range(1, max),
            };
            v.max(1).min(max.max(2) * 2)
        };
        let (c, rr) = match r.n(5) {
            0 => {
                // width-only or height-only change
                if r.chance(1, 2) {
                    (r.range(1, maxc + 3), r0)
                } else {
                    (c0, r.range(1, maxr + 2))
                }
            }
            1 | 2 => (rel(r, c0, maxc + 3), rel(r, r0, maxr + 2)),
            _ => (r.range(1, maxc + 3), r.range(1, maxr + 2)),
        };
        let consume = !r.chance(1, 8);
        s.resize(slot, c, rr, consume);
        true
    } else {
        false
    }
}

/// Put the cursor on a structurally interesting position (margins and their neighbours, first / last
/// row, first / last column, the wrap-pending position), computed from the terminal's current margins.
fn place_cursor(s: &mut S, r: &mut Rng, slot: usize) {
    let h = s.vt(slot).verif_state().terminal;
    let (cols, rows) = (h.cols as i64, h.rows as i64);
    let (top, bot) = (h.top_margin as i64, h.bottom_margin as i64);
    let cand_rows = [0, top - 1, top, top + 1, bot - 1, bot, bot + 1, rows - 1];
    let row = loop {
        let x = *r.pick(&cand_rows);
        if x >= 0 && x < rows {
            break x;
        }
    };
    let cand_cols = [0, 1, cols - 2, cols - 1, cols - 1];
    let col = loop {
        let x = *r.pick(&cand_cols);
        if x >= 0 && x < cols {
            break x;
        }
    };
    if h.origin_mode && (row < top || row > bot) && r.chance(1, 2) {
        s.feed_str(slot, "\x1b[?6l", true);
    }
    let h = s.vt(slot).verif_state().terminal;
    let rel = if h.origin_mode { (row - top).max(0) } else { row };
    s.feed_str(slot, &format!("\x1b[{};{}H", rel + 1, col + 1), true);
    if col == cols - 1 && r.chance(1, 2) {
        s.feed_str(slot, "p", true); // wrap-pending (with auto-wrap on)
    }
}

/// Generic one-token episode.
fn tokens(s: &mut S, r: &mut Rng, slot: usize, wt: &Weights, n: usize, maxc: usize, maxr: usize, resize: (u64, u64)) {
    for _ in 0..n {
        if !s.alive(slot) {
            return;
        }
        if maybe_resize(s, r, slot, maxc, maxr, resize.0, resize.1) {
            continue;
        }
        if r.chance(1, 5) {
            place_cursor(s, r, slot);
            if !s.alive(slot) {
                return;
            }
        }
        let (c, rr) = s.vt(slot).size();
        let t = gen::token(r, wt, c, rr);
        s.feed_str(slot, &t, true);
    }
}

fn fill(s: &mut S, r: &mut Rng, slot: usize) {
    // row-labelled content with a few pens, some rows wrapped
    let (c, rr) = s.vt(slot).size();
    let n = r.range(0, rr + 2);
    for i in 0..n {
        if r.chance(1, 3) {
            s.feed_str(slot, &gen::sgr_small(r), true);
        }
        let len = match r.n(4) {
            0 => c,
            1 => c + r.range(0, c),
            _ => r.range(0, c),
        };
        let ch = (b'A' + (i % 26) as u8) as char;
        let line: String = std::iter::repeat(ch).take(len.min(24)).collect();
        if !line.is_empty() {
            s.feed_str(slot, &line, true);
        }
        if i + 1 < n {
            s.feed_str(slot, "\r\n", true);
        }
    }
}

fn ep_general(s: &mut S, r: &mut Rng, maxc: usize, maxr: usize, wt: &Weights, name: &str, resize: (u64, u64)) {
    s.episode(name);
    let (c, rr) = gen::size(r, maxc, maxr);
    let lim = gen::limit(r);
    let slot = s.new_vt(c, rr, lim);
    if r.chance(1, 2) {
        fill(s, r, slot);
    }
    prelude(s, r, slot);
    if r.chance(1, 8) {
        s.feed_str(slot, "\x1b[20h", true);
    }
    if r.chance(1, 8) {
        let t = gen::enter_alt(r);
        s.feed_str(slot, &t, true);
    }
    let n = r.range(4, 28);
    tokens(s, r, slot, wt, n, maxc, maxr, resize);
}

// ---------------------------------------------------------------------------------- C04

/// "wrap-pending cursor across a width change": fill a row exactly, change the width (directly, or while
/// the other screen is showing so that the re-wrap is deferred to the switch back), then print.
fn ep_c04_wrap_resize(s: &mut S, r: &mut Rng, maxc: usize, maxr: usize, name: &str) {
    s.episode(name);
    let (c, rr) = gen::size(r, maxc, maxr);
    let slot = s.new_vt(c, rr, gen::limit(r));
    if r.chance(1, 2) {
        fill(s, r, slot);
    }
    let fillrow = |s: &mut S, r: &mut Rng, slot: usize| {
        let (c, rr) = s.vt(slot).size();
        let line: String = std::iter::repeat(*r.pick(&['k', 'l', ' '])).take(c).collect();
        s.feed_str(slot, &format!("\x1b[{};1H{}", r.range(1, rr), line), true);
    };
    let deferred = r.chance(1, 2);
    if deferred {
        if r.chance(1, 2) {
            fillrow(s, r, slot);
        }
        let t = gen::enter_alt(r);
        s.feed_str(slot, &t, true);
    }
    if !deferred || r.chance(1, 2) {
        fillrow(s, r, slot);
    }
    let (c0, r0) = s.vt(slot).size();
    let (nc, nr) = if r.chance(2, 3) { (next_size(r, c0, r0, maxc, maxr).0, r0) } else { next_size(r, c0, r0, maxc, maxr) };
    s.resize(slot, nc, nr, true);
    if deferred {
        if r.chance(2, 3) {
            fillrow(s, r, slot);
        }
        let t = gen::leave_alt(r);
        s.feed_str(slot, &t, true);
    }
    for _ in 0..r.range(1, 4) {
        if !s.alive(slot) {
            return;
        }
        let t = match r.n(4) {
            0 => "\x08".to_string(),
            1 => "\x1b[D".to_string(),
            _ => gen::print(r),
        };
        s.feed_str(slot, &t, true);
    }
}

// ---------------------------------------------------------------------------------- C05 (tabs)

/// HT / CHT / CBT after resize chains through widths that coincide with tab stops.
fn ep_c05_tabs(s: &mut S, r: &mut Rng) {
    s.episode("C05");
    let w2 = *r.pick(&[8usize, 16, 24, 32]);
    let w1 = w2 + r.range(1, 12);
    let w3 = w2 + r.range(1, 20);
    let slot = s.new_vt(w1, r.range(1, 2), 0);
    if r.chance(1, 3) {
        let t = format!("\x1b[{}G\x1bH", r.range(2, w1));
        s.feed_str(slot, &t, true);
    }
    s.resize(slot, w2, 1, true);
    if r.chance(1, 4) {
        s.resize(slot, *r.pick(&[8usize, 16, 24]), 1, true);
    }
    s.resize(slot, w3, 1, true);
    for _ in 0..r.range(3, 8) {
        let (c, _) = s.vt(slot).size();
        let t = format!("\x1b[{}G", r.range(1, c));
        s.feed_str(slot, &t, true);
        let n = r.range(1, 3);
        let t = if r.chance(1, 2) { format!("\x1b[{}I", n) } else { format!("\x1b[{}Z", n) };
        s.feed_str(slot, &t, true);
    }
}

// ---------------------------------------------------------------------------------- C01

fn coarse_string(r: &mut Rng, c: usize, rr: usize) -> String {
    let n = r.range(1, 12);
    let mut out = String::new();
    for _ in 0..n {
        match r.n(12) {
            0 => {
                // truncated sequence
                let t = gen::token(r, &GENERAL, c, rr);
                let cs: Vec<char> = t.chars().collect();
                let k = r.range(0, cs.len());
                out.extend(cs[..k].iter());
            }
            1 => {
                // absurd parameters
                let p = *r.pick(&["65535", "65536", "4294967295", "4294967296", "99999999999999999999999999999999999999999", "0000000000000000001"]);
                let f = *r.pick(&["A", "B", "C", "D", "G", "H", "d", "X", "@", "P", "r", "m", "h", "I", "Z", "W", "g", "J", "K", "`", "a", "e", "f", "t"]);
                out.push_str(&format!("\x1b[{}{}", p, f));
            }
            2 => {
                // many parameters / sub-parameters
                let np = r.range(30, 40);
                let ps: Vec<String> = (0..np).map(|i| if r.chance(1, 5) { String::new() } else { format!("{}", (i * 7) % 110) }).collect();
                let f = *r.pick(&["m", "H", "h", "l", "r", "t"]);
                out.push_str(&format!("\x1b[{}{}", ps.join(";"), f));
            }
            3 => {
                let np = r.range(5, 9);
                let ps: Vec<String> = (0..np).map(|_| format!("{}", r.n(300))).collect();
                out.push_str(&format!("\x1b[{}{}m", *r.pick(&["38:", "48:", "", "1;38:"]), ps.join(":")));
            }
            4 => out.push_str(&gen::control_string(r)),
            5 => out.push_str(&gen::unimplemented(r)),
            6 => {
                // arbitrary scalar values
                for _ in 0..r.range(1, 6) {
                    let c = loop {
                        let v = match r.n(4) {
                            0 => r.n(0x100) as u32,
                            1 => r.n(0x3000) as u32,
                            2 => 0xD7F0 + r.n(0x40) as u32 * 0x31,
                            _ => r.n(0x110000) as u32,
                        };
                        if let Some(c) = char::from_u32(v) {
                            break c;
                        }
                    };
                    out.push(c);
                }
            }
            _ => out.push_str(&gen::token(r, &GENERAL, c, rr)),
        }
    }
    out
}

fn ep_c01(s: &mut S, r: &mut Rng, maxc: usize, maxr: usize) {
    s.episode("C01");
    let (c, rr) = gen::size(r, maxc, maxr);
    let lim = *r.pick(&[-1i64, -1, 0, 0, 1, 9, 10, 1000]);
    let slot = s.new_vt(c, rr, lim);
    let n = r.range(3, 14);
    for _ in 0..n {
        if !s.alive(slot) {
            return;
        }
        let (c, rr) = s.vt(slot).size();
        match r.n(12) {
            0 | 1 => {
                let (nc, nr) = (r.range(1, maxc + 4), r.range(1, maxr + 3));
                let consume = r.chance(3, 4);
                s.resize(slot, nc, nr, consume);
            }
            2 => {
                s.queries(slot);
            }
            3 => {
                s.dump(slot);
            }
            4 => {
                s.text(slot);
            }
            5 | 6 => {
                let t = coarse_string(r, c, rr);
                s.feed_chars(slot, &t);
            }
            _ => {
                let t = coarse_string(r, c, rr);
                let consume = r.chance(3, 4);
                s.feed_str(slot, &t, consume);
            }
        }
    }
    s.queries(slot);
}

// ---------------------------------------------------------------------------------- C02

fn prelude(s: &mut S, r: &mut Rng, slot: usize) {
    let (_c, rr) = s.vt(slot).size();
    if r.chance(1, 2) {
        let t = gen::valid_margins(r, rr);
        s.feed_str(slot, &t, true);
    }
    if r.chance(1, 3) {
        s.feed_str(slot, "\x1b[?6h", true);
    }
    if r.chance(1, 5) {
        s.feed_str(slot, "\x1b[?7l", true);
    }
    if r.chance(1, 6) {
        s.feed_str(slot, "\x1b[4h", true);
    }
    if r.chance(1, 6) {
        let t = gen::sgr_small(r);
        s.feed_str(slot, &t, true);
    }
}

/// cursor to a far / edge position
fn far_cursor(r: &mut Rng, c: usize, rr: usize) -> String {
    match r.n(5) {
        0 => "\x1b[999;999H".to_string(),
        1 => format!("\x1b[{};{}H", rr, c),
        2 => format!("\x1b[{};1H", rr),
        3 => "\x1b[?6l\x1b[999;1H".to_string(),
        _ => format!("\x1b[{};{}H", r.range(1, rr), r.range(1, c)),
    }
}

fn overflow_print(r: &mut Rng, c: usize) -> String {
    let n = r.range(c, 2 * c + 2).min(40);
    let ch = *r.pick(&['m', 'n', 'o', 'w']);
    std::iter::repeat(ch).take(n).collect()
}

fn ep_c02(s: &mut S, r: &mut Rng, maxc: usize, maxr: usize) {
    s.episode("C02");
    s.log_view = true;
    let (c, rr) = gen::size(r, maxc, maxr);
    let lim = gen::limit(r);
    let slot = s.new_vt(c, rr, lim);
    if r.chance(1, 2) {
        fill(s, r, slot);
    }
    prelude(s, r, slot);
    let wt = w(|x| {
        x.alt = 12;
        x.save = 8;
        x.print = 25;
        x.cursor = 12;
        x.modes = 6;
        x.margins = 6;
    });
    // the histories the property names: saved cursor outside a shrunken screen, resize while the
    // alternate screen is showing and switching back afterwards, printing below the scroll region
    if r.chance(1, 2) {
        // a random walk over {far cursor, save, switch screen, shrink, restore + print}
        let steps = r.range(4, 9);
        for _ in 0..steps {
            if !s.alive(slot) {
                break;
            }
            let (c, rr) = s.vt(slot).size();
            match r.n(10) {
                0 | 1 => {
                    let t = far_cursor(r, c, rr);
                    s.feed_str(slot, &t, true);
                    if r.chance(1, 3) {
                        let t = overflow_print(r, c);
                        s.feed_str(slot, &t, true);
                    }
                }
                2 | 3 => {
                    let t = gen::save(r);
                    s.feed_str(slot, &t, true);
                }
                4 | 5 => {
                    let t = if r.chance(1, 2) { gen::leave_alt(r) } else { gen::enter_alt(r) };
                    s.feed_str(slot, &t, true);
                }
                6 | 7 => {
                    let (nc, nr) = if r.chance(3, 4) { (r.range(1, c.max(2)), r.range(1, rr.max(2))) } else { (r.range(1, maxc + 2), r.range(1, maxr + 2)) };
                    s.resize(slot, nc, nr, true);
                }
                _ => {
                    let t = gen::restore(r);
                    s.feed_str(slot, &t, true);
                    let t = overflow_print(r, c);
                    s.feed_str(slot, &t, true);
                }
            }
        }
    }
    let n = r.range(5, 25);
    for _ in 0..n {
        if !s.alive(slot) {
            break;
        }
        if maybe_resize(s, r, slot, maxc, maxr, 1, 4) {
            continue;
        }
        let (c, rr) = s.vt(slot).size();
        let t = match r.n(12) {
            0 => far_cursor(r, c, rr),
            1 => overflow_print(r, c),
            _ => gen::token(r, &wt, c, rr),
        };
        if r.chance(1, 6) {
            s.feed_chars(slot, &t);
        } else {
            s.feed_str(slot, &t, true);
        }
    }
    s.log_view = false;
}

// ---------------------------------------------------------------------------------- C09

fn text_line(r: &mut Rng, w: usize) -> String {
    let len = match r.n(8) {
        0 => 0,
        1 => w,
        2 => 2 * w,
        3 => 3 * w,
        4 => w + 1,
        5 => w.saturating_sub(1),
        _ => r.range(0, 4 * w + 1),
    };
    let mut s = String::new();
    let all_spaces = r.chance(1, 10);
    for _ in 0..len {
        let c = if all_spaces {
            ' '
        } else {
            *r.pick(&['a', 'b', 'c', 'd', ' ', ' ', 'é', '世', '\u{a0}', '\u{3000}', 'x', 'y', 'z', '.', '~', '\u{7f}'])
        };
        s.push(c);
    }
    s
}

/// C09 with the HEIGHT changing in the middle of the input (the text is cut at arbitrary positions, biased
/// to the moment a row has just been filled, and the height - only the height - changes between the
/// pieces): text() must still be exactly the input lines (MCText.tla checks this on the specification for
/// every cut position).  A width change in mid-line is not covered by any statement and is not done here.
fn ep_c09_mid(s: &mut S, r: &mut Rng, maxc: usize, maxr: usize) {
    s.episode("C09");
    let w = r.range(1, maxc);
    let slots = [s.new_vt(w, r.range(1, maxr), -1), s.new_vt(w, r.range(1, maxr), -1), s.new_vt(w, 1, -1)];
    let nl = r.range(1, 10);
    let lines: Vec<String> = (0..nl).map(|_| text_line(r, w)).collect();
    let input: Vec<char> = lines.join("\r\n").chars().collect();
    // cut points: after a row has just been filled (pending wrap), plus random ones
    let mut cuts: Vec<usize> = Vec::new();
    let mut col = 0usize;
    for (i, c) in input.iter().enumerate() {
        if *c == '\r' || *c == '\n' {
            col = 0;
        } else {
            col += 1;
            if col % w == 0 && r.chance(1, 2) {
                cuts.push(i + 1);
            }
        }
    }
    for _ in 0..r.range(0, 3) {
        cuts.push(r.range(0, input.len()));
    }
    cuts.sort();
    cuts.dedup();
    cuts.truncate(4);
    for slot in slots {
        let mut from = 0usize;
        for &k in cuts.iter().chain(std::iter::once(&input.len())) {
            let piece: String = input[from..k].iter().collect();
            if !piece.is_empty() {
                s.feed_str(slot, &piece, true);
            }
            from = k;
            if k < input.len() && s.alive(slot) {
                let (c0, r0) = s.vt(slot).size();
                let nr = match r.n(4) {
                    0 => c0,                        // the new height equals the width
                    1 => r0 + 1,
                    2 => (r0.max(2)) - 1,
                    _ => r.range(1, maxr + 2),
                };
                if nr != r0 {
                    s.resize(slot, c0, nr.max(1), true);
                }
            }
        }
        if !s.alive(slot) {
            return;
        }
        s.text(slot);
    }
    let mut v = String::from("[");
    for (i, l) in lines.iter().enumerate() {
        if i > 0 {
            v.push(',');
        }
        crate::obs::str_cps(&mut v, l);
    }
    v.push(']');
    s.note("input_lines", &v);
    s.rel("TextOK", &slots);
}

fn ep_c09(s: &mut S, r: &mut Rng, maxc: usize, maxr: usize) {
    if r.chance(1, 3) {
        return ep_c09_mid(s, r, maxc, maxr);
    }
    s.episode("C09");
    let w1 = r.range(1, maxc);
    let w2 = r.range(1, maxc + 2);
    let h1 = r.range(1, maxr);
    let a = s.new_vt(w1, h1, -1);
    let b = s.new_vt(w2, r.range(1, maxr), -1);
    let c = s.new_vt(r.range(1, maxc), 1, -1);
    let nl = r.range(0, 6);
    let lines: Vec<String> = (0..nl).map(|_| text_line(r, w1)).collect();
    let input = lines.join("\r\n");
    let whole = r.chance(1, 2);
    for slot in [a, b, c] {
        if whole {
            s.feed_str(slot, &input, true);
        } else {
            for (i, l) in lines.iter().enumerate() {
                if !l.is_empty() {
                    s.feed_str(slot, l, true);
                }
                if i + 1 < lines.len() {
                    s.feed_str(slot, "\r\n", true);
                }
            }
        }
        s.text(slot);
    }
    let mut v = String::from("[");
    for (i, l) in lines.iter().enumerate() {
        if i > 0 {
            v.push(',');
        }
        crate::obs::str_cps(&mut v, l);
    }
    v.push(']');
    s.note("input_lines", &v);
    s.rel("TextOK", &[a, b, c]);
    // "whatever the terminal width": also after the width changed under the text
    if r.chance(1, 2) {
        for slot in [a, b, c] {
            if !s.alive(slot) {
                return;
            }
            let (c0, r0) = s.vt(slot).size();
            let (nc, nr) = next_size(r, c0, r0, maxc, maxr);
            s.resize(slot, nc, nr, true);
            s.text(slot);
        }
        s.note("input_lines", &v);
        s.rel("TextOK", &[a, b, c]);
    }
}

// ---------------------------------------------------------------------------------- C10

/// A buffer with more than a thousand rows whose soft-wrapped lines straddle every possible block boundary
/// around row 1024, then width changes (anything that re-wraps in blocks or pages must not cut a line).
fn ep_c10_big(s: &mut S, r: &mut Rng) {
    s.episode("C10");
    let cols = 10;
    let slot = s.new_vt(cols, 4, -1);
    let mut text = String::new();
    for i in 0..(1000 + r.range(0, 3)) {
        text.push_str(&format!("{}\r\n", i % 10));
    }
    for i in 0..24 {
        let ch = (b'A' + (i % 26) as u8) as char;
        let long: String = std::iter::repeat(ch).take(cols + 5).collect();
        text.push_str(&long);
        text.push_str("\r\n");
    }
    s.feed_str(slot, &text, true);
    s.feed_str(slot, "\x1b[2;3H", true);
    let nc = *r.pick(&[20usize, 7, 12, 5]);
    s.resize(slot, nc, 4, true);
    s.resize(slot, cols, 5, true);
}

fn ep_c10(s: &mut S, r: &mut Rng, maxc: usize, maxr: usize) {
    s.episode("C10");
    let (c, rr) = gen::size(r, maxc, maxr);
    let slot = s.new_vt(c, rr, -1);
    if r.chance(1, 2) {
        // modes and margins that cursor translation must ignore (origin mode, a region below the first row)
        prelude(s, r, slot);
    }
    let wt = w(|x| {
        x.alt = 0;
        x.ris = 0;
        x.print = 45;
        x.c0 = 14;
        x.edit = 8;
        x.inert = 0;
        x.scroll = 4;
    });
    if r.chance(2, 3) {
        fill(s, r, slot);
    }
    let n = r.range(2, 14);
    tokens(s, r, slot, &wt, n, maxc, maxr, (0, 1));
    for _ in 0..r.range(1, 4) {
        if !s.alive(slot) {
            return;
        }
        let (c0, r0) = s.vt(slot).size();
        let (nc, nr) = next_size(r, c0, r0, maxc, maxr);
        s.resize(slot, nc, nr, true);
        if r.chance(1, 3) {
            let k = r.range(1, 4);
            tokens(s, r, slot, &wt, k, maxc, maxr, (0, 1));
        }
    }
}

// ---------------------------------------------------------------------------------- C11

const PROBES: &[&str] = &[
    "\x1b[1;1HX", "\n", "\x1b[999;1H\nY", "\x1b[1;999Hab", "\x0eaq\x0fq", "\r\t\t\tT", "\x1b8P", "\x1b[?1047h\x1b8Q", "\x1b[?1047lR",
    "abc", "\r\n", "\x1b[2;2H", "\x1bM", "\x1b[3L", "\x1b[2P", "\x1b[5@", "\x1b[K", "\x1b[1J", "\x1b[10b", "\x1b[?6h", "\x1b[?6l", "\x1b[Z",
    "\x1b[!p", "\x1b[4lz", "\x1b[20l\n", "\x1b[?7hwwwwwwwwwwww", "\x1bD", "\x1bE", "\x1b[S", "\x1b[T", "\x1b[?25h", "\x1b[?1l",
];

/// The two known findings of C11, as the fixed histories listed in known_findings.json - run on
/// every check so that each listed finding is demonstrated against the real code every time.
fn ep_c11_known(s: &mut S) {
    // C11-a: origin mode, cursor outside the scroll region, saved context disagrees with the modes
    s.episode("C11");
    let a = s.new_vt(5, 5, 0);
    for t in ["\x1b[?6h", "\x1b7", "\x1b[3;4r", "\x1b8", "\x1b[?1047h"] {
        s.feed_str(a, t, true);
    }
    if let Some(d) = s.dump(a) {
        let b = s.new_vt(5, 5, 0);
        s.feed_str(b, &d, true);
        s.rel("ObsEq", &[a, b]);
        for t in ["\x1b[1;1HX", "\x1b[?1047l", "\x1b[1;1HY"] {
            s.feed_str(a, t, true);
            s.feed_str(b, t, true);
            s.rel("ObsEq", &[a, b]);
        }
    }
    // C11-b: resize while the alternate screen is showing
    s.episode("C11");
    let a = s.new_vt(4, 3, 0);
    s.feed_str(a, "abcdef\r\ngh", true);
    s.feed_str(a, "\x1b[?1047h", true);
    s.resize(a, 2, 3, true);
    if let Some(d) = s.dump(a) {
        let b = s.new_vt(2, 3, 0);
        s.feed_str(b, &d, true);
        s.rel("ObsEq", &[a, b]);
        s.feed_str(a, "\x1b[?1047l", true);
        s.feed_str(b, "\x1b[?1047l", true);
        s.rel("ObsEq", &[a, b]);
    }
}

fn ep_c11(s: &mut S, r: &mut Rng, maxc: usize, maxr: usize) {
    s.episode("C11");
    let (c, rr) = gen::size(r, maxc, maxr);
    let lim = *r.pick(&[-1i64, 0, 3]);
    let a = s.new_vt(c, rr, lim);
    let wt = w(|x| {
        x.alt = 8;
        x.save = 8;
        x.modes = 10;
        x.margins = 8;
        x.tabs = 6;
        x.charset = 6;
        x.sgr = 8;
        x.ris = 0;
    });
    if r.chance(1, 2) {
        fill(s, r, a);
    }
    let n = r.range(2, 18);
    tokens(s, r, a, &wt, n, maxc, maxr, (1, 12));
    if !s.alive(a) {
        return;
    }
    // states that dump() has to re-create: saved contexts on both screens that disagree with the
    // current modes, a wrap-pending cursor, customised tabs / charsets / margins
    if r.chance(1, 2) {
        let (c, rr) = s.vt(a).size();
        for screen in 0..2 {
            if r.chance(1, 2) {
                continue;
            }
            let t = if screen == 0 { gen::leave_alt(r) } else { gen::enter_alt(r) };
            s.feed_str(a, &t, true);
            let mut pre = String::new();
            if r.chance(1, 2) {
                pre.push_str("\x1b[?7l");
            }
            if r.chance(1, 2) {
                pre.push_str("\x1b[?6h");
            }
            if r.chance(1, 2) {
                pre.push_str(&format!("\x1b[{};{}H", rr, c)); // far corner: outside after any shrink
            } else {
                pre.push_str(&format!("\x1b[{};{}H", r.range(1, rr), r.range(1, c)));
            }
            if r.chance(1, 2) {
                pre.push_str(&gen::sgr_small(r));
            }
            s.feed_str(a, &pre, true);
            let t = gen::save(r);
            s.feed_str(a, &t, true);
            let mut post = String::new();
            if r.chance(2, 3) {
                post.push_str("\x1b[?7h");
            }
            if r.chance(2, 3) {
                post.push_str("\x1b[?6l");
            }
            if !post.is_empty() {
                s.feed_str(a, &post, true);
            }
        }
        if r.chance(1, 2) {
            let t = if r.chance(1, 2) { gen::leave_alt(r) } else { gen::enter_alt(r) };
            s.feed_str(a, &t, true);
        }
        if s.alive(a) && r.chance(1, 2) {
            if r.chance(1, 2) {
                let t = gen::leave_alt(r);
                s.feed_str(a, &t, true);
            }
            // a resize after the contexts were saved (shrinking leaves them outside the screen; a width
            // that coincides with a tab stop; ...) - on the primary screen this is outside the known class
            let (c0, r0) = s.vt(a).size();
            let (nc, nr) = match r.n(6) {
                0 => (8.min(c0.max(1)), r0),
                1 | 2 | 3 => (r.range(1, c0), r.range(1, r0)),
                4 => (16, r0),
                _ => next_size(r, c0, r0, maxc, maxr),
            };
            s.resize(a, nc, nr, true);
        }
        if s.alive(a) && r.chance(2, 3) {
            // park the cursor in the wrap-pending position
            let (c, rr) = s.vt(a).size();
            let line: String = std::iter::repeat('w').take(c).collect();
            s.feed_str(a, &format!("\x1b[{};1H{}", r.range(1, rr), line), true);
            if r.chance(1, 4) {
                s.feed_str(a, "\x1b[?7l", true);
            }
        }
    }
    // optionally cut inside a sequence
    let mut rest = String::new();
    if r.chance(1, 3) {
        let (c, rr) = s.vt(a).size();
        let t = match r.n(4) {
            0 => gen::control_string(r),
            1 => gen::sgr(r),
            _ => gen::token(r, &wt, c, rr),
        };
        let cs: Vec<char> = t.chars().collect();
        if cs.len() > 1 {
            let k = r.range(1, cs.len() - 1);
            let head: String = cs[..k].iter().collect();
            rest = cs[k..].iter().collect();
            s.feed_str(a, &head, true);
        }
    }
    let (c, rr) = s.vt(a).size();
    let d = match s.dump(a) {
        Some(d) => d,
        None => return,
    };
    let b = s.new_vt(c, rr, lim);
    s.feed_str(b, &d, true);
    s.rel("ObsEq", &[a, b]);
    if !rest.is_empty() {
        s.feed_str(a, &rest, true);
        s.feed_str(b, &rest, true);
        s.rel("ObsEq", &[a, b]);
    }
    // both saved contexts are always probed (restore here, switch screen, restore there)
    if r.chance(2, 3) {
        for t in ["\x1b8P", "\x1b[?1047h\x1b8Q", "\x1b[?1047l\x1b8R", "\x1b[?1047h\x1b8S"] {
            if !s.alive(a) || !s.alive(b) {
                return;
            }
            s.feed_str(a, t, true);
            s.feed_str(b, t, true);
            s.rel("ObsEq", &[a, b]);
        }
    }
    let np = r.range(2, 8);
    for _ in 0..np {
        if !s.alive(a) || !s.alive(b) {
            return;
        }
        let t = if r.chance(2, 3) { r.pick(PROBES).to_string() } else { gen::token(r, &wt, c, rr) };
        s.feed_str(a, &t, true);
        s.feed_str(b, &t, true);
        s.rel("ObsEq", &[a, b]);
    }
}

// ---------------------------------------------------------------------------------- C12

fn ep_c12(s: &mut S, r: &mut Rng, maxc: usize, maxr: usize) {
    s.episode("C12");
    let (c, rr) = gen::size(r, maxc, maxr);
    let lim = gen::limit(r);
    let a = s.new_vt(c, rr, lim);
    let b = s.new_vt(c, rr, lim);
    let d = s.new_vt(c, rr, lim);
    let rounds = r.range(1, 3);
    let style = r.n(3);
    for _ in 0..rounds {
        let mut input = String::new();
        for _ in 0..r.range(1, 10) {
            // scroll-heavy inputs make the end-of-call trim matter (limit 0, alternate screen)
            if style == 0 || (style == 1 && r.chance(1, 2)) {
                input.push_str(&scrolly(r, c, rr));
            } else {
                input.push_str(&gen::token(r, &GENERAL, c, rr));
            }
        }
        if r.chance(1, 4) {
            input = coarse_string(r, c, rr);
        }
        if r.chance(1, 4) {
            // a long run of one character (anything that treats runs specially), with the drawing set / insert mode /
            // a pen in force half of the time
            input.push_str(*r.pick(&["", "\x1b(0", "\x1b)0\x0e", "\x1b[4h", "\x1b[?7l", "\x1b[44m", "\x1b(0\x1b[1m"]));
            let ch = *r.pick(&['q', 'a', 'x', '~', ' ', '世', 'é']);
            for _ in 0..r.range(14, 40) {
                input.push(ch);
            }
            input.push_str(*r.pick(&["", "\x1b(B", "\x0f", "\x1b[4l", "\x1b[?7h", "\x1b[m"]));
        }
        if r.chance(1, 4) {
            input.push_str(&gen::messy_string(r));
            input.push_str(&gen::print(r));
        }
        let cs: Vec<char> = input.chars().collect();
        s.feed_str(a, &input, true);
        // pieces
        let mut i = 0;
        while i < cs.len() {
            let k = r.range(1, (cs.len() - i).min(7));
            let piece: String = cs[i..i + k].iter().collect();
            s.feed_str(b, &piece, r.chance(3, 4));
            i += k;
        }
        if cs.is_empty() {
            s.feed_str(b, "", true);
        }
        s.feed_chars(d, &input);
        s.rel("ChunkEq", &[a, b, d]);
    }
    // flush: an empty feed_str lets every slot run its end-of-call trim
    s.feed_str(a, "", true);
    s.feed_str(b, "", true);
    s.feed_str(d, "", true);
    s.rel("ChunkEqFlushed", &[a, b, d]);
}

// ---------------------------------------------------------------------------------- C13 / C14

fn scrolly(r: &mut Rng, c: usize, rr: usize) -> String {
    match r.n(16) {
        0..=3 => "\r\n".to_string(),
        4 => "\n".to_string(),
        5 => {
            let n = r.range(1, 2 * c + 2).min(30);
            let ch = *r.pick(&['a', 'b', 'c', 'd', 'e']);
            std::iter::repeat(ch).take(n).collect()
        }
        6 => gen::csi1(gen::capped(gen::count(r, rr), 30), "S", r),
        7 => "\x1b[1;1H\x1b[M".to_string(),
        8 => gen::csi1(gen::capped(gen::count(r, rr), 30), "M", r),
        9 => {
            if rr >= 3 && r.chance(1, 2) {
                format!("\x1b[1;{}r", r.range(2, rr - 1)) // top-anchored region that stops short of the last row
            } else {
                gen::margins(r, rr)
            }
        }
        10 => gen::alt_screen(r),
        11 => gen::csi2(gen::count(r, rr), gen::count(r, c), "H", r),
        12 => gen::sgr_small(r),
        13 => {
            // scroll-downs that start at the top row (the row above them is in the scrollback)
            r.pick(&["\x1b[1;1H\x1bM", "\x1b[1;1H\x1b[L", "\x1b[T", "\x1b[1;1H\x1b[2L", "\x1b[r\x1b[1;1H\x1bM"]).to_string()
        }
        _ => gen::print(r),
    }
}

fn ep_c13(s: &mut S, r: &mut Rng, maxc: usize, maxr: usize) {
    s.episode("C13");
    let with_ris = r.chance(1, 3);
    let (c, rr) = gen::size(r, maxc, maxr);
    let lim = *r.pick(&[0i64, 1, 2, 9, 10, 11, 20, 25]);
    let slot = s.new_vt(c, rr, lim);
    let n = r.range(5, 30);
    for _ in 0..n {
        if !s.alive(slot) {
            return;
        }
        if maybe_resize(s, r, slot, maxc, maxr, 1, 6) {
            continue;
        }
        let (c, rr) = s.vt(slot).size();
        let mut t = String::new();
        for _ in 0..r.range(1, 8) {
            t.push_str(&scrolly(r, c, rr));
            if with_ris && r.chance(1, 12) {
                t.push_str("\x1bc"); // also from inside an alternate-screen excursion
            }
        }
        let consume = match r.n(3) {
            0 => false,
            _ => true,
        };
        if r.chance(1, 5) {
            // feed() never trims: the bound is owed again by the next feed_str / resize call,
            // including a resize to the size the terminal already has
            s.feed_chars(slot, &t);
            if r.chance(1, 2) {
                s.resize(slot, c, rr, consume);
            }
        } else {
            s.feed_str(slot, &t, consume);
        }
    }
}

fn ep_c14(s: &mut S, r: &mut Rng, maxc: usize, maxr: usize) {
    s.episode("C14");
    let (c, rr) = gen::size(r, maxc, maxr);
    let lim = *r.pick(&[0i64, 1, 3, 10, 25]);
    let a = s.new_vt(c, rr, lim);
    let b = s.new_vt(c, rr, -1);
    let n = r.range(3, 20);
    for _ in 0..n {
        let mut t = String::new();
        for _ in 0..r.range(1, 8) {
            let x = scrolly(r, c, rr);
            t.push_str(&x);
        }
        // the session must not contain RIS (decided by TLC's parse as well)
        s.feed_str(a, &t, true);
        s.feed_str(b, &t, true);
    }
    // end on the primary screen
    s.feed_str(a, "\x1b[?1047l", true);
    s.feed_str(b, "\x1b[?1047l", true);
    s.rel("NoLoss", &[a, b]);
    // util::TextCollector: the same text for every limit and every chunking
    if r.chance(1, 2) {
        let lims = [lim, -1, *r.pick(&[0i64, 1, 2, 10])];
        let tcs: Vec<usize> = lims.iter().map(|l| s.tc_new(c, rr, *l)).collect();
        let mut input = String::new();
        for _ in 0..r.range(2, 12) {
            input.push_str(&scrolly(r, c, rr));
        }
        input.push_str("\x1b[?1047l");
        let cs: Vec<char> = input.chars().collect();
        for (i, k) in tcs.iter().enumerate() {
            if i == 0 {
                s.tc_feed(*k, &input);
            } else {
                let mut j = 0;
                while j < cs.len() {
                    let n = r.range(1, (cs.len() - j).min(9));
                    let piece: String = cs[j..j + n].iter().collect();
                    s.tc_feed(*k, &piece);
                    j += n;
                }
            }
        }
        for k in tcs.iter() {
            s.tc_flush(*k);
        }
        s.tc_rel(&tcs);
    }
}

/// Bounded-exhaustive TextCollector endings: a line that wraps over several rows, line feeds that push part of it
/// into a limited scrollback (so that the hand-out boundary falls INSIDE the logical line), then an ending that
/// leaves blanks, more text or nothing in the view; flush; same text under limits 0, 1 and unlimited, whole and
/// character by character.
fn ep_c14t(s: &mut S) {
    let endings = ["", "\x1b[2J", "\x1b[1J", "\x1b[H\x1b[J", "\r   ", "\x1b[2K", "z", "\x1b[?1047h\x1b[?1047l", "\x1b[H\x1b[M\x1b[M"];
    for w in [3usize, 4] {
        for h in [2usize, 3] {
            for len in (w + 1)..=(3 * w) {
                for nl in 0..4usize {
                    for end in endings {
                        s.episode("C14T");
                        let mut input: String = (0..len).map(|i| (b'a' + (i % 26) as u8) as char).collect();
                        for _ in 0..nl {
                            input.push_str("\r\n");
                        }
                        input.push_str(end);
                        let tcs = [s.tc_new(w, h, 0), s.tc_new(w, h, 1), s.tc_new(w, h, -1), s.tc_new(w, h, 0)];
                        for k in &tcs[..3] {
                            s.tc_feed(*k, &input);
                        }
                        for ch in input.chars() {
                            s.tc_feed(tcs[3], &ch.to_string());
                        }
                        for k in tcs {
                            s.tc_flush(k);
                        }
                        s.tc_rel(&tcs);
                    }
                }
            }
        }
    }
}

// ---------------------------------------------------------------------------------- C16

fn ep_c16(s: &mut S, r: &mut Rng, maxc: usize, maxr: usize) {
    s.episode("C16");
    let (c, rr) = gen::size(r, maxc, maxr);
    let lim = gen::limit(r);
    let slot = s.new_vt(c, rr, lim);
    fill(s, r, slot);
    let wt = w(|x| {
        x.alt = 0;
        x.ris = 0;
    });
    let n = r.range(0, 8);
    tokens(s, r, slot, &wt, n, maxc, maxr, (1, 10));
    let excursions = r.range(1, 3);
    let with_resize = r.chance(1, 3);
    for _ in 0..excursions {
        if !s.alive(slot) {
            return;
        }
        s.text(slot);
        let e = gen::enter_alt(r);
        s.feed_str(slot, &e, true);
        s.text(slot);
        let n = r.range(1, 12);
        let wt2 = w(|x| {
            x.alt = 0;
            x.ris = 0;
            x.edit = 14;
            x.scroll = 14;
            x.decstr = 2;
            x.save = 5;
        });
        for _ in 0..n {
            if !s.alive(slot) {
                return;
            }
            if with_resize && maybe_resize(s, r, slot, maxc, maxr, 1, 4) {
                continue;
            }
            let (c, rr) = s.vt(slot).size();
            // entering again is allowed (it is not "leaving")
            let t = if r.chance(1, 12) { gen::enter_alt(r) } else { gen::token(r, &wt2, c, rr) };
            s.feed_str(slot, &t, true);
            if r.chance(1, 3) {
                s.text(slot);
            }
        }
        if s.alive(slot) && r.chance(1, 2) {
            let (c, rr) = s.vt(slot).size();
            let t = format!("\x1b[{};{}H", r.range(1, rr), r.range(1, c));
            s.feed_str(slot, &t, true);
        }
        let l = gen::leave_alt(r);
        s.feed_str(slot, &l, true);
        s.text(slot);
        let n = r.range(0, 4);
        tokens(s, r, slot, &wt, n, maxc, maxr, (0, 1));
    }
}

// ---------------------------------------------------------------------------------- C17

fn ep_c17(s: &mut S, r: &mut Rng, maxc: usize, maxr: usize) {
    s.episode("C17");
    let (c, rr) = gen::size(r, maxc, maxr);
    let slot = s.new_vt(c, rr, gen::limit(r));
    let wt = w(|x| {
        x.save = 0;
        x.sgr = 10;
        x.modes = 10;
        x.margins = 6;
        x.alt = 4;
        x.decstr = 2;
        x.ris = 0;
    });
    let rounds = r.range(1, 4);
    for _ in 0..rounds {
        let n = r.range(0, 8);
        tokens(s, r, slot, &wt, n, maxc, maxr, (1, 12));
        if !s.alive(slot) {
            return;
        }
        let t = gen::save(r);
        s.feed_str(slot, &t, true);
        let n = r.range(0, 10);
        tokens(s, r, slot, &wt, n, maxc, maxr, (1, 8));
        if !s.alive(slot) {
            return;
        }
        let t = gen::restore(r);
        s.feed_str(slot, &t, true);
        // probes that exercise the restored pen / origin / auto-wrap
        for p in ["P", "\x1b[1;1H", "Q", "\x1b[1;999HRS"] {
            s.feed_str(slot, p, true);
        }
    }
}

// ---------------------------------------------------------------------------------- C18

fn ep_c18(s: &mut S, r: &mut Rng, _maxc: usize, _maxr: usize) {
    s.episode("C18");
    let widths = [1usize, 2, 7, 8, 9, 15, 16, 17, 24, 31, 32, 33, 40, 64, 80, 100, 120];
    let c = *r.pick(&widths);
    let slot = s.new_vt(c, r.range(1, 3), 0);
    let n = r.range(3, 16);
    for _ in 0..n {
        if !s.alive(slot) {
            return;
        }
        let (c, _rr) = s.vt(slot).size();
        match r.n(10) {
            0..=2 => {
                let nc = if r.chance(1, 2) { *r.pick(&widths) } else { r.range(1, 48) };
                s.resize(slot, nc, r.range(1, 3), true);
            }
            3 | 4 => {
                let t = gen::csi1(gen::count(r, c), "G", r);
                s.feed_str(slot, &t, true);
                if r.chance(2, 3) {
                    let t = gen::tabs(r);
                    s.feed_str(slot, &t, true);
                }
            }
            5 => {
                let t = gen::tabs(r);
                s.feed_str(slot, &t, true);
            }
            6 => {
                // ladder: CR then HT until the edge
                s.feed_str(slot, "\r", true);
                for _ in 0..(c / 8 + 2).min(16) {
                    s.feed_str(slot, "\t", true);
                }
            }
            7 => {
                s.feed_str(slot, "\x1b[999G", true);
                for _ in 0..(c / 8 + 2).min(16) {
                    s.feed_str(slot, "\x1b[Z", true);
                }
            }
            8 if r.chance(1, 2) => {
                // tab stops are shared by both screens; a resize while the other screen shows must not touch them twice
                let t = if r.chance(1, 2) { gen::enter_alt(r) } else { gen::leave_alt(r) };
                s.feed_str(slot, &t, true);
            }
            _ => {
                let t = gen::tab_move(r);
                s.feed_str(slot, &t, true);
            }
        }
    }
}

// ---------------------------------------------------------------------------------- C19

fn ep_c19(s: &mut S, r: &mut Rng, maxc: usize, maxr: usize) {
    s.episode("C19");
    let (c, rr) = gen::size(r, maxc, maxr);
    let lim = gen::limit(r);
    let a = s.new_vt(c, rr, lim);
    let wt = w(|x| {
        x.alt = 8;
        x.modes = 12;
        x.tabs = 6;
        x.charset = 5;
        x.save = 6;
        x.margins = 6;
        x.sgr = 6;
        x.ris = 0;
    });
    fill(s, r, a);
    let n = r.range(2, 20);
    tokens(s, r, a, &wt, n, maxc, maxr, (1, 10));
    if !s.alive(a) {
        return;
    }
    // optionally leave the parser inside a sequence / string
    if r.chance(1, 2) {
        let t = *r.pick(&["\x1b]0;title", "\x1bP1;2|abc", "\x1b_apc", "\x1b^pm", "\x1bXsos", "\x1b[12;3", "\x1b[?1", "\x1b[1 ", "\x1b[:", "\x1b(", "\x1b", "\u{90}:", "\u{9b}",
            "\x1b[0;0;0;0;0;0;0;0;0;0;0;0;0;0;0;0;0;0;0;0;0;0;0;0;0;0;0;0;0;0;0;1",
            "\x1b[1;2;3;4;5;6;7;8;9;10;11;12;13;14;15;16;17;18;19;20;21;22;23;24;25;26;27;28;29;30;31;32;33",
            "\x1bP1;1;1;1;1;1;1;1;1;1;1;1;1;1;1;1;1;1;1;1;1;1;1;1;1;1;1;1;1;1;1;7", "\x1b[38:2:1:2:3:4",
            // more sub-parameters than the parser stores, complete and incomplete
            "\x1b[1:2:3:4:5:6:7:8", "\x1b[38:2:1:2:3:4:5:6:7m", "\x1b[9:9:9:9:9:9:9:9;9:9:9:9:9:9:9:9:9m", "\x1b[4::::::7", "\x1b[1:1:1:1:1:1:1 q", "\u{9b}5:4:3:2:1:9:8;7:7:7:7:7:7:7:7",
            // a single parameter whose first sub-parameter is 0 (looks "clear" when only the first part is examined)
            "\x1b[0:1m", "\x1b[00:7:9", "\x1b[0:5", "\u{9b}:3m"]);
        s.feed_str(a, t, true);
    }
    let t = if r.chance(1, 4) { "\x1b\x01c" } else { "\x1bc" };
    s.feed_str(a, t, true);
    let (c, rr) = s.vt(a).size();
    let b = s.new_vt(c, rr, lim);
    // a fresh Vt reports all rows changed on its first call; align the two by an empty call
    s.feed_str(b, "", true);
    s.rel("FreshEq", &[a, b]);
    let n = r.range(1, 8);
    for _ in 0..n {
        if !s.alive(a) || !s.alive(b) {
            return;
        }
        let t = match r.n(5) {
            0 | 1 => r.pick(PROBES).to_string(),
            2 if r.chance(1, 2) => format!("\x1b[{}mX", ";".repeat(r.range(29, 33))), // reads every parameter slot
            2 => r.pick(&["\x1b[38:5:3mX", "\x1b[48:2:1:2:3mX", "\x1b[0;38:2::1:2:3mX", "\x1b[;48:5:9mX", "\x1b[38:2:::mX", "\x1b[4:mX",
                         "\x1b[1mX", "\x1b[5C", "\x1b[7mY\x1b[2D"]).to_string(), // reads the sub-parameter slots / a single plain parameter
            _ => gen::token(r, &wt, c, rr),
        };
        s.feed_str(a, &t, true);
        s.feed_str(b, &t, true);
        s.rel("FreshEq", &[a, b]);
    }
}

// ---------------------------------------------------------------------------------- C20

fn ep_c20(s: &mut S, r: &mut Rng, maxc: usize, maxr: usize) {
    s.episode("C20");
    let (c, rr) = gen::size(r, maxc, maxr);
    let slot = s.new_vt(c, rr, gen::limit(r));
    if r.chance(1, 2) {
        fill(s, r, slot);
    }
    let n = r.range(2, 14);
    for _ in 0..n {
        if !s.alive(slot) {
            return;
        }
        let (c, rr) = s.vt(slot).size();
        if r.chance(1, 2) {
            let t = gen::token(r, &GENERAL, c, rr);
            s.feed_str(slot, &t, true);
        } else {
            let t = match r.n(5) {
                0 | 1 => gen::control_string(r),
                2 | 3 => gen::near_miss(r),
                _ => gen::unimplemented(r),
            };
            if r.chance(1, 4) {
                s.feed_chars(slot, &t);
                s.feed_str(slot, "", true);
            } else {
                s.feed_str(slot, &t, true);
            }
        }
    }
}

/// Bounded-exhaustive C08: all 256 indexed colours x both grounds x every encoding, each followed by a
/// printed cell and an erased cell whose pen is then read back through the public accessors.
fn ep_c08x(s: &mut S, r: &mut Rng, shard: u64, shards: u64) {
    let mut k = 0u64;
    for ground in [38u32, 48] {
        for idx in 0u32..256 {
            k += 1;
            if k % shards != shard {
                continue;
            }
            s.episode("C08X");
            let slot = s.new_vt(3, 2, 0);
            let mut forms = vec![format!("\x1b[{};5;{}m", ground, idx), format!("\x1b[{}:5:{}m", ground, idx), format!("\u{9b}{};5;{}m", ground, idx)];
            if idx < 8 {
                forms.push(format!("\x1b[{}m", ground - 8 + idx));
            } else if idx < 16 {
                forms.push(format!("\x1b[{}m", ground + 52 + idx - 8));
            }
            // the same value as an RGB grey, in the three RGB spellings
            forms.push(format!("\x1b[{};2;{};{};{}m", ground, idx, 255 - idx, idx / 2));
            forms.push(format!("\x1b[{}:2:{}:{}:{}m", ground, idx, 255 - idx, idx / 2));
            forms.push(format!("\x1b[{}:2::{}:{}:{}m", ground, idx, 255 - idx, idx / 2));
            for f in forms {
                // an unrelated attribute before and after must survive
                let attr = *r.pick(&["1", "3", "4", "5", "7", "9", "2"]);
                s.feed_str(slot, &format!("\x1b[{}m", attr), true);
                s.feed_str(slot, &f, true);
                s.feed_str(slot, "x", true);
                s.feed_str(slot, "\x1b[K", true);
                s.feed_str(slot, if ground == 38 { "\x1b[39m" } else { "\x1b[49m" }, true);
                s.feed_str(slot, "\x1b[m\r", true);
            }
        }
    }
}

/// Bounded-exhaustive: every CSI final 0x40..0x7e x {no prefix, ?, <, =, >} x {no intermediate, SP, !, $}
/// x parameter shapes, each as ONE feed_str call on a terminal in a non-default state.  Whether a
/// sequence is inert is decided by the specification (TLC), not here.
fn ep_c20x(s: &mut S, r: &mut Rng, _maxc: usize, _maxr: usize, shard: u64, shards: u64) {
    if shard == 0 {
        // finals >= U+00A0 (handled like 'A', i.e. nothing - whatever their low byte looks like), after ESC, after
        // ESC + intermediate and after CSI with parameters
        s.episode("C20X");
        let slot = s.new_vt(5, 4, 0);
        s.feed_str(slot, "\x1b[2;3r\x1b[?25l\x1b[31mab\r\ncd\x1b[2;2H", true);
        for base in [0x100u32, 0x4e00, 0x1f600] {
            for low in 0x40u32..=0x7e {
                if let Some(ch) = char::from_u32(base + low) {
                    if !s.alive(slot) {
                        break;
                    }
                    s.feed_str(slot, &format!("\x1b{}", ch), true);
                    s.feed_str(slot, &format!("\x1b({}", ch), true);
                    s.feed_str(slot, &format!("\x1b[2{}", ch), true);
                    s.feed_str(slot, &format!("\x1b[?6{}", ch), true);
                }
            }
        }
    }
    if shard == 1 % shards {
        // every C0 control (except CAN, SUB, ESC; BEL not in OSC) inside every kind of control string, in every
        // sub-state of its header (DCS entry / parameters / intermediate / pass-through / ignore), both terminators
        let headers = ["\x1bP", "\x1bP1;2", "\x1bP$", "\x1bP1$", "\x1bP+!", "\x1bPq", "\x1bP1;2|", "\x1bP:", "\x1bP1:", "\x1bP1 2", "\u{90}", "\u{90}?$", "\u{90}?1",
                       "\x1b]", "\x1b]0;t", "\u{9d}", "\x1bX", "\x1b^", "\x1b_", "\u{98}", "\u{9e}", "\u{9f}a"];
        for h in headers {
            s.episode("C20X");
            let slot = s.new_vt(5, 4, 1);
            s.feed_str(slot, "\x1b[2;3r\x1b[?25l\x1b[31mab\r\ncd\x1b[2;2H", true);
            let osc = h.starts_with("\x1b]") || h.starts_with('\u{9d}');
            for c in 0u32..0x20 {
                if c == 0x18 || c == 0x1a || c == 0x1b || (osc && c == 7) || !s.alive(slot) {
                    continue;
                }
                let ch = char::from_u32(c).unwrap();
                s.feed_str(slot, &format!("{}{}xy\x1b\\", h, ch), true);
                s.feed_str(slot, &format!("{}z{}{}\u{9c}", h, ch, ch), true);
            }
        }
    }
    let params = ["", "4", "20", "1", "6", "7", "25", "1047", "1049", "2", "3", "5", "0", "1;1", "4;20", "8;2;2", "65535"];
    let prefixes = ["", "?", "<", "=", ">"];
    let inters = ["", " ", "!", "$", "#", "! ", "!$"];
    let mut k = 0u64;
    for fin in 0x40u8..=0x7e {
        for pre in prefixes {
            for int in inters {
                k += 1;
                if k % shards != shard {
                    continue;
                }
                s.episode("C20X");
                let slot = s.new_vt(r.range(3, 6), r.range(3, 4), 0);
                s.feed_str(slot, "\x1b[2;3r\x1b[?25l\x1b[31mab\r\ncd\x1b[2;2H", true);
                for p in params {
                    if !s.alive(slot) {
                        break;
                    }
                    let t = format!("\x1b[{}{}{}{}", pre, p, int, fin as char);
                    s.feed_str(slot, &t, true);
                }
            }
        }
    }
}

/// Bounded-exhaustive parameter SHAPES (C03 "parameters as written", C08 SGR forms, C19/C20 parser
/// cleanliness): every sequence of up to three items over an item alphabet that mixes ';' and ':'
/// forms, empty items, colour introducers with and without their arguments and items with more
/// sub-parameters than the parser stores, before the SGR final; colour introducers followed by up to
/// four further items; one and two items before every other implemented final.  Each token is one
/// feed_str call, once on a cleared pen and once on a pen with everything set.
/// The token list of C03S: (parameter text, final, private marker).
fn shape_list() -> Vec<(String, &'static str, &'static str)> {
    let items = ["", "0", "1", "2", "5", "7", "38", "48", "2:9", "5:1", "38:5:3", "48:2:1:2:3", "38:2::1:2:3", "1:2:3:4:5:6:7", "::::::", "4:3:::::5:", "0:1", "00:7:9"];
    let small = ["", "0", "1", "2", "5", "7", "2:9", "5:1"];
    let mut toks: Vec<(String, &'static str, &'static str)> = Vec::new();
    for a in items {
        toks.push((a.to_string(), "m", ""));
        for b in items {
            toks.push((format!("{};{}", a, b), "m", ""));
            for c in items {
                toks.push((format!("{};{};{}", a, b, c), "m", ""));
            }
        }
    }
    for intro in ["38", "48"] {
        for a in small {
            for b in small {
                for c in small {
                    toks.push((format!("{};{};{};{}", intro, a, b, c), "m", ""));
                    toks.push((format!("1;{};{};{};{}", intro, a, b, c), "m", ""));
                    for d in small {
                        toks.push((format!("{};{};{};{};{}", intro, a, b, c, d), "m", ""));
                    }
                }
            }
        }
    }
    let finals = ["H", "r", "A", "B", "C", "D", "d", "G", "J", "K", "h", "l", "?h", "?l", "X", "@", "P", "L", "M", "S", "T", "b", "g", "W", "I", "Z", "e", "`", "a", "E", "F", "f"];
    for fin in finals {
        let (pre, f) = if let Some(x) = fin.strip_prefix('?') { ("?", x) } else { ("", fin) };
        for a in items {
            toks.push((a.to_string(), f, pre));
            for b in items.iter().take(13) {
                toks.push((format!("{};{}", a, b), f, pre));
            }
        }
    }
    toks
}

pub fn shape_tokens() -> Vec<String> {
    shape_list().into_iter().map(|(p, f, pre)| format!("\x1b[{}{}{}", pre, p, f)).collect()
}

fn ep_c03s(s: &mut S, shard: u64, shards: u64) {
    let mut k = 0u64;
    let mut slot = 0usize;
    let mut in_ep = 0usize;
    let start = |s: &mut S| -> usize {
        s.episode("C03S");
        let slot = s.new_vt(6, 4, 2);
        s.feed_str(slot, "ab\r\ncdef\r\ng\x1b[2;3H", true);
        slot
    };
    for (t, f, pre) in shape_list() {
        k += 1;
        if k % shards != shard {
            continue;
        }
        if in_ep == 0 || !s.alive(slot) {
            slot = start(s);
        }
        in_ep = (in_ep + 1) % 40;
        if f == "m" {
            s.feed_str(slot, "\x1b[m", true);
            s.feed_str(slot, &format!("\x1b[{}m", t), true);
            s.feed_str(slot, "\x1b[0;1;3;4;5;7;9;31;42m", true);
            s.feed_str(slot, &format!("\u{9b}{}m", t), true);
        } else {
            s.feed_str(slot, &format!("\x1b[{}{}{}", pre, t, f), true);
        }
    }
}

// ---------------------------------------------------------------------------------- C03 (Vt part)

fn ep_c03(s: &mut S, r: &mut Rng, _maxc: usize, _maxr: usize) {
    // parser episodes are written by sweep.rs / parser_stream; here: end-to-end defaults through Vt
    s.episode("C03");
    let slot = s.new_vt(r.range(1, 12), r.range(1, 6), 0);
    let n = r.range(4, 20);
    for _ in 0..n {
        let (c, rr) = s.vt(slot).size();
        // two sequences in one call: stale-parameter leakage shows as a wrong second function
        let a = gen::token(r, &GENERAL, c, rr);
        let b = gen::token(r, &GENERAL, c, rr);
        s.feed_str(slot, &format!("{}{}", a, b), true);
    }
}

pub fn run(args: &Args) -> i32 {
    let drv = args.pos.get(1).cloned().unwrap_or_default();
    let seed = args.num("seed", 1);
    let episodes = args.num("episodes", 100);
    let maxc = args.num("maxc", 9) as usize;
    let maxr = args.num("maxr", 6) as usize;
    let out = args.str("out", "trace.ndjson");
    let f = BufWriter::with_capacity(1 << 20, File::create(&out).expect("create trace"));
    let mut s = Session::new(f);
    let mut r = Rng::new(seed.wrapping_mul(0x2545F4914F6CDD1D) ^ drv.bytes().fold(0u64, |a, b| a.wrapping_mul(131).wrapping_add(b as u64)));
    if drv == "C03P" {
        return crate::sweep::parser_streams(args, &mut r);
    }
    if drv == "C08X" {
        ep_c08x(&mut s, &mut r, args.num("shard", 0), args.num("shards", 1));
        s.out.flush().unwrap();
        println!("{{\"driver\":\"C08X\",\"seed\":{},\"episodes\":{},\"events\":{},\"panics\":{},\"chars\":{},\"distinct_nontrivial\":{}}}", seed, s.episodes, s.events, s.panics, s.chars_fed, s.distinct.len());
        return 0;
    }
    if drv == "C14T" {
        ep_c14t(&mut s);
        s.out.flush().unwrap();
        println!("{{\"driver\":\"C14T\",\"seed\":{},\"episodes\":{},\"events\":{},\"panics\":{},\"chars\":{},\"distinct_nontrivial\":{}}}", seed, s.episodes, s.events, s.panics, s.chars_fed, s.distinct.len());
        return 0;
    }
    if drv == "C03S" {
        ep_c03s(&mut s, args.num("shard", 0), args.num("shards", 1));
        s.out.flush().unwrap();
        println!("{{\"driver\":\"C03S\",\"seed\":{},\"episodes\":{},\"events\":{},\"panics\":{},\"chars\":{},\"distinct_nontrivial\":{}}}", seed, s.episodes, s.events, s.panics, s.chars_fed, s.distinct.len());
        return 0;
    }
    if drv == "C20X" {
        // --episodes doubles as "shard count", --seed low digits as the shard index
        let shards = args.num("shards", 1);
        let shard = args.num("shard", 0);
        ep_c20x(&mut s, &mut r, maxc, maxr, shard, shards);
        s.out.flush().unwrap();
        println!("{{\"driver\":\"C20X\",\"seed\":{},\"episodes\":{},\"events\":{},\"panics\":{},\"chars\":{},\"distinct_nontrivial\":{}}}", seed, s.episodes, s.events, s.panics, s.chars_fed, s.distinct.len());
        return 0;
    }
    if drv == "C11" {
        ep_c11_known(&mut s);
    }
    for _ in 0..episodes {
        match drv.as_str() {
            "C01" => ep_c01(&mut s, &mut r, maxc, maxr),
            "C02" => ep_c02(&mut s, &mut r, maxc, maxr),
            "C03" => ep_c03(&mut s, &mut r, maxc, maxr),
            "C04" if r.chance(1, 5) => ep_c04_wrap_resize(&mut s, &mut r, maxc, maxr, "C04"),
            "C05" if r.chance(1, 8) => ep_c04_wrap_resize(&mut s, &mut r, maxc, maxr, "C05"),
            "C05" if r.chance(1, 10) => ep_c05_tabs(&mut s, &mut r),
            "C04" => ep_general(
                &mut s,
                &mut r,
                maxc,
                maxr,
                &w(|x| {
                    x.print = 60;
                    x.charset = 8;
                    x.modes = 10;
                    x.rep = 6;
                    x.margins = 4;
                    x.cursor = 10;
                    x.alt = 1;
                    x.ris = 0;
                    x.inert = 0;
                }),
                "C04",
                (1, 14),
            ),
            "C05" => ep_general(
                &mut s,
                &mut r,
                maxc,
                maxr,
                &w(|x| {
                    x.cursor = 50;
                    x.c0 = 12;
                    x.margins = 10;
                    x.modes = 8;
                    x.print = 12;
                    x.tabs = 4;
                    x.edit = 2;
                    x.scroll = 6;
                    x.inert = 0;
                }),
                "C05",
                (1, 12),
            ),
            "C06" => ep_general(
                &mut s,
                &mut r,
                maxc,
                maxr,
                &w(|x| {
                    x.scroll = 40;
                    x.c0 = 12;
                    x.margins = 10;
                    x.print = 20;
                    x.sgr = 6;
                    x.alt = 4;
                    x.cursor = 12;
                    x.inert = 0;
                }),
                "C06",
                (1, 12),
            ),
            "C07" => ep_general(
                &mut s,
                &mut r,
                maxc,
                maxr,
                &w(|x| {
                    x.edit = 45;
                    x.print = 30;
                    x.sgr = 8;
                    x.cursor = 14;
                    x.inert = 0;
                    x.ris = 0;
                }),
                "C07",
                (1, 16),
            ),
            "C08" => ep_general(
                &mut s,
                &mut r,
                maxc,
                maxr,
                &w(|x| {
                    x.sgr = 50;
                    x.print = 20;
                    x.edit = 10;
                    x.scroll = 6;
                    x.inert = 0;
                    x.ris = 1;
                    x.decstr = 1;
                }),
                "C08",
                (1, 30),
            ),
            "C09" => ep_c09(&mut s, &mut r, maxc, maxr),
            "C10" if s.episodes == 0 && maxc < 20 => ep_c10_big(&mut s, &mut r),
            "C10" => ep_c10(&mut s, &mut r, maxc, maxr),
            "C11" => ep_c11(&mut s, &mut r, maxc, maxr),
            "C12" => ep_c12(&mut s, &mut r, maxc, maxr),
            "C13" => ep_c13(&mut s, &mut r, maxc, maxr),
            "C14" => ep_c14(&mut s, &mut r, maxc, maxr),
            "C15" => ep_general(&mut s, &mut r, maxc, maxr, &w(|x| x.inert = 1), "C15", (1, 10)),
            "C16" => ep_c16(&mut s, &mut r, maxc, maxr),
            "C17" => ep_c17(&mut s, &mut r, maxc, maxr),
            "C18" => ep_c18(&mut s, &mut r, maxc, maxr),
            "C19" => ep_c19(&mut s, &mut r, maxc, maxr),
            "C20" => ep_c20(&mut s, &mut r, maxc, maxr),
            "GEN" => ep_general(&mut s, &mut r, maxc, maxr, &GENERAL, "GEN", (1, 10)),
            _ => {
                eprintln!("unknown driver {}", drv);
                return 2;
            }
        }
    }
    s.out.flush().unwrap();
    println!("{{\"driver\":\"{}\",\"seed\":{},\"episodes\":{},\"events\":{},\"panics\":{},\"chars\":{},\"distinct_nontrivial\":{}}}", drv, seed, s.episodes, s.events, s.panics, s.chars_fed, s.distinct.len());
    0
}

/// C01, un-validated part: large inputs, 65535 counts, watchdog against hangs.
pub fn stress(args: &Args) -> i32 {
    use std::sync::atomic::{AtomicU64, Ordering};
    use std::sync::Arc;
    let seed = args.num("seed", 1);
    let secs = args.num("secs", 10);
    let out = args.str("out", "stress.json");
    let fail = args.str("fail", "stress-fail.ndjson");
    let beat = Arc::new(AtomicU64::new(0));
    let cur: Arc<std::sync::Mutex<String>> = Arc::new(std::sync::Mutex::new(String::new()));
    {
        // watchdog: a single call that takes more than 30 s is a hang
        let beat = beat.clone();
        let cur = cur.clone();
        let fail = fail.clone();
        std::thread::spawn(move || {
            let mut last = 0;
            let mut stuck = 0;
            loop {
                std::thread::sleep(std::time::Duration::from_secs(1));
                let b = beat.load(Ordering::Relaxed);
                if b == last {
                    stuck += 1;
                } else {
                    stuck = 0;
                    last = b;
                }
                if stuck >= 30 {
                    let c = cur.lock().unwrap().clone();
                    std::fs::write(&fail, format!("{{\"ev\":\"hang\",\"history\":{}}}\n", c)).ok();
                    println!("STRESS-FAIL hang");
                    std::process::exit(1);
                }
            }
        });
    }
    let start = std::time::Instant::now();
    let mut r = Rng::new(seed ^ 0xABCDEF);
    let mut calls = 0u64;
    let mut chars = 0u64;
    let mut sessions = 0u64;
    let mut kinds = std::collections::BTreeSet::new();
    while start.elapsed().as_secs() < secs {
        sessions += 1;
        let (c, rr) = match r.n(5) {
            0 => (1, 1),
            1 => (r.range(1, 3), r.range(1, 3)),
            2 => (80, 24),
            3 => (r.range(1, 200), r.range(1, 60)),
            _ => (r.range(1, 12), r.range(1, 8)),
        };
        let lim = *r.pick(&[-1i64, 0, 1, 9, 10, 1000, 100000]);
        let mut hist: Vec<String> = vec![format!("{{\"new\":[{},{},{}]}}", c, rr, lim)];
        let res = std::panic::catch_unwind(std::panic::AssertUnwindSafe(|| {
            let mut vt = if lim < 0 { avt::Vt::builder().size(c, rr).build() } else { avt::Vt::builder().size(c, rr).scrollback_limit(lim as usize).build() };
            let n = r.range(3, 40);
            for _ in 0..n {
                beat.fetch_add(1, Ordering::Relaxed);
                let (c, rr) = vt.size();
                match r.n(10) {
                    0 => {
                        let (nc, nr) = match r.n(4) {
                            0 => (1, 1),
                            1 => (r.range(1, 300), r.range(1, 100)),
                            _ => (r.range(1, 20), r.range(1, 10)),
                        };
                        hist.push(format!("{{\"resize\":[{},{}]}}", nc, nr));
                        *cur.lock().unwrap() = format!("[{}]", hist.join(","));
                        let ch = vt.resize(nc, nr);
                        let _ = ch.scrollback.count();
                        kinds.insert("resize");
                    }
                    1 => {
                        let _ = vt.dump();
                        let _ = vt.text();
                        let _ = vt.cursor();
                        for n in 0..vt.size().1 {
                            let _ = vt.line(n).chunks(|a, b| a.pen() != b.pen()).count();
                        }
                        kinds.insert("query");
                    }
                    2 => {
                        // 65535-count commands
                        let f = *r.pick(&["b", "@", "L", "M", "S", "T", "P", "X", "A", "B", "C", "D", "I", "Z", "E", "F", "G", "d", "e"]);
                        let pre = if f == "b" { "x" } else { "" };
                        let t = format!("{}\x1b[65535{}", pre, f);
                        hist.push(format!("{{\"feed_str\":{:?}}}", t));
                        *cur.lock().unwrap() = format!("[{}]", hist.join(","));
                        chars += t.chars().count() as u64;
                        let ch = vt.feed_str(&t);
                        let _ = ch.scrollback.count();
                        kinds.insert("big-count");
                    }
                    3 => {
                        let mut t = String::new();
                        for _ in 0..r.range(1, 30) {
                            t.push_str(&coarse_string(&mut r, c, rr));
                        }
                        hist.push(format!("{{\"feed\":{:?}}}", t));
                        *cur.lock().unwrap() = format!("[{}]", hist.join(","));
                        chars += t.chars().count() as u64;
                        for ch in t.chars() {
                            vt.feed(ch);
                        }
                        kinds.insert("feed");
                    }
                    _ => {
                        let mut t = String::new();
                        for _ in 0..r.range(1, 40) {
                            t.push_str(&coarse_string(&mut r, c, rr));
                        }
                        hist.push(format!("{{\"feed_str\":{:?}}}", t));
                        *cur.lock().unwrap() = format!("[{}]", hist.join(","));
                        chars += t.chars().count() as u64;
                        let ch = vt.feed_str(&t);
                        if r.chance(1, 2) {
                            let _ = ch.scrollback.count();
                        }
                        kinds.insert("feed_str");
                    }
                }
                calls += 1;
            }
            // TextCollector
            let mut tc = avt::util::TextCollector::new(vt);
            let t = coarse_string(&mut r, c, rr);
            let _ = tc.feed_str(&t).count();
            let _ = tc.resize(r.range(1, 30) as u16, r.range(1, 10) as u16).count();
            let _ = tc.flush();
        }));
        if let Err(e) = res {
            let msg = if let Some(s) = e.downcast_ref::<&str>() { s.to_string() } else if let Some(s) = e.downcast_ref::<String>() { s.clone() } else { "?".into() };
            std::fs::write(&fail, format!("{{\"ev\":\"panic\",\"msg\":{:?},\"history\":[{}]}}\n", msg, hist.join(","))).ok();
            println!("STRESS-FAIL panic {}", msg);
            return 1;
        }
    }
    let js = format!("{{\"sessions\":{},\"calls\":{},\"chars\":{},\"kinds\":{:?}}}", sessions, calls, chars, kinds.iter().collect::<Vec<_>>());
    std::fs::write(&out, &js).ok();
    println!("{}", js);
    0
}
