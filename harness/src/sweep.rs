//! C03: the stand-alone parser, through the public `avt::parser` API.
//!
//! * `sweep`: for each background (a prefix that puts the parser into one of the 14 states
//!   with a particular parameter / intermediate history) feed EVERY Unicode scalar value to a
//!   parser in that background and record the outcome with the input character abstracted as
//!   "self" (-2); consecutive code points with the same outcome are merged into one run.
//! * `parser_streams` (driver C03P): random escape-structured streams, one `pf` event per
//!   chunk with the function returned for every character.

use crate::gen::{self, Rng, GENERAL};
use crate::obs;
use crate::Args;
use avt::parser::{Function, Parser};
use std::fmt::Write as _;
use std::fs::File;
use std::io::{BufWriter, Write};

pub const BACKGROUNDS: &[&str] = &[
    "",                       // Ground
    "\x1b[1;2H",              // Ground with stale parameters
    "\x1b",                   // Escape
    "\x1b[38:2::1:2:3m\x1b",  // Escape after a sub-parameter sequence
    "\x1b(",                  // EscapeIntermediate
    "\x1b#",                  // EscapeIntermediate
    "\x1b[",                  // CsiEntry
    "\x1b[1;2;3;4;5;6;7;8;9;10;11;12;13;14;15;16;17;18;19;20;21;22;23;24;25;26;27;28;29;30;31;32;33m\u{9b}", // CsiEntry after 33 params
    "\x1b[1;2",               // CsiParam
    "\x1b[?1",                // CsiParam with private marker
    "\x1b[38:2::1:2:3",       // CsiParam with 6 sub-parameters
    "\x1b[1;2;3;4;5;6;7;8;9;10;11;12;13;14;15;16;17;18;19;20;21;22;23;24;25;26;27;28;29;30;31;32", // CsiParam, 32 params
    "\x1b[6553",              // CsiParam, number about to overflow
    "\x1b[1 ",                // CsiIntermediate
    "\x1b[!",                 // CsiIntermediate (DECSTR prefix)
    "\x1b[:",                 // CsiIgnore
    "\x1b[1 2",               // CsiIgnore
    "\x1bP",                  // DcsEntry
    "\u{90}",                 // DcsEntry (8-bit)
    "\x1bP1;2",               // DcsParam
    "\x1bP?",                 // DcsParam with marker
    "\x1bP1;2;3;4;5;6;7;8;9;10;11;12;13;14;15;16;17;18;19;20;21;22;23;24;25;26;27;28;29;30;31;32", // DcsParam, 32 params
    "\x1bP1$",                // DcsIntermediate
    "\x1bP1;2|",              // DcsPassthrough
    "\x1bP:",                 // DcsIgnore
    "\x1b]0;title",           // OscString
    "\u{9d}",                 // OscString (8-bit)
    "\x1bX",                  // SosPmApcString
    "\u{9f}abc",              // SosPmApcString (APC, 8-bit)
    "\x1b[0:1m\x1b[",          // CsiEntry after a sequence whose only parameter is 0 with a sub-parameter
    "\x1b[00:7:9\x1b",         // Escape after such a sequence left unfinished
    "\x1b[1:2:3:4:5:6:7",      // CsiParam with more sub-parameters than are stored
    "\x1b[3;7H\u{90}",         // DcsEntry (8-bit) after a CSI with two parameters
    "\x1b[3;7H\x1bP",          // DcsEntry (7-bit) after a CSI with two parameters
    "\x1b[! ",                // CsiIntermediate with two intermediates
    "\x1b[?6!",               // CsiIntermediate after a private marker and a parameter
    "\x1b( ",                 // EscapeIntermediate with two intermediates
];

fn fn_abstract(out: &mut String, f: &Option<Function>, c: char) {
    // Print(c) is the only function that carries the input character
    if let Some(Function::Print(x)) = f {
        if *x == c {
            out.push_str("{\"f\":\"Print\",\"a\":[-2]}");
            return;
        }
    }
    obs::function(out, f);
}

fn outcome(bg: &str, c: char) -> String {
    // a panic in the parser is data: the outcome "panic" matches no run of the specification
    match std::panic::catch_unwind(|| outcome_inner(bg, c)) {
        Ok(s) => s,
        Err(_) => "\"out\":{\"f\":\"PANIC\",\"a\":[]},\"st\":{\"state\":\"PANIC\",\"params\":[[0]],\"inter\":-1},\"clean\":true".to_string(),
    }
}

fn outcome_inner(bg: &str, c: char) -> String {
    let mut p = Parser::new();
    for b in bg.chars() {
        p.feed(b);
    }
    let f = p.feed(c);
    let mut s = String::new();
    s.push_str("\"out\":");
    fn_abstract(&mut s, &f, c);
    s.push_str(",\"st\":");
    let mut st = String::new();
    let clean = obs::parser_state(&mut st, &p);
    // abstract the collected intermediate when it is the input itself
    let needle = format!("\"inter\":{}}}", c as u32);
    if st.ends_with(&needle) && p.verif_state().intermediate == Some(c) {
        let k = st.len() - needle.len();
        st.truncate(k);
        st.push_str("\"inter\":-2}");
    }
    s.push_str(&st);
    let _ = write!(s, ",\"clean\":{}", clean);
    s
}

fn sweep_background(bg: &str) -> (Vec<String>, u64) {
    let mut lines = Vec::new();
    let mut pairs = 0u64;
    let mut lo: Option<(u32, u32, String)> = None;
    let emit = |lines: &mut Vec<String>, lo: u32, hi: u32, oc: &str| {
        let mut s = String::new();
        let _ = write!(s, "{{\"ev\":\"sw\",\"bg\":");
        obs::str_cps(&mut s, bg);
        let _ = write!(s, ",\"lo\":{},\"hi\":{},{}}}", lo, hi, oc);
        lines.push(s);
    };
    for v in 0u32..=0x10FFFF {
        let c = match char::from_u32(v) {
            Some(c) => c,
            None => continue, // surrogates are not scalar values
        };
        pairs += 1;
        let oc = outcome(bg, c);
        match &mut lo {
            Some((_a, b, o)) if *o == oc && (*b + 1 == v || (*b == 0xD7FF && v == 0xE000)) => {
                *b = v;
            }
            _ => {
                if let Some((a, b, o)) = lo.take() {
                    emit(&mut lines, a, b, &o);
                }
                lo = Some((v, v, oc));
            }
        }
    }
    if let Some((a, b, o)) = lo.take() {
        emit(&mut lines, a, b, &o);
    }
    (lines, pairs)
}

pub fn run(args: &Args) -> i32 {
    let out = args.str("out", "sweep.ndjson");
    let nbg = (args.num("backgrounds", BACKGROUNDS.len() as u64) as usize).min(BACKGROUNDS.len());
    // --stride k: take every k-th background starting at --offset (quick tier: one per state)
    let stride = args.num("stride", 1) as usize;
    let offset = args.num("offset", 0) as usize;
    let chosen: Vec<&'static str> = BACKGROUNDS.iter().take(nbg).enumerate().filter(|(i, _)| i % stride == offset % stride).map(|(_, b)| *b).collect();
    let handles: Vec<_> = chosen.iter().map(|bg| { let bg = *bg; std::thread::spawn(move || sweep_background(bg)) }).collect();
    let mut f = BufWriter::new(File::create(&out).expect("create"));
    let mut runs = 0u64;
    let mut pairs = 0u64;
    writeln!(f, "{{\"ev\":\"ep\",\"id\":1,\"drv\":\"sweep\"}}").unwrap();
    for h in handles {
        let (lines, p) = h.join().expect("sweep thread");
        pairs += p;
        runs += lines.len() as u64;
        for l in lines {
            writeln!(f, "{}", l).unwrap();
        }
    }
    f.flush().unwrap();
    println!("{{\"driver\":\"sweep\",\"episodes\":{},\"backgrounds\":{},\"pairs\":{},\"runs\":{},\"distinct_nontrivial\":{}}}", chosen.len(), chosen.len(), pairs, runs, runs);
    0
}

fn seq_shapes(r: &mut Rng) -> String {
    // all finals x prefixes x parameter shapes
    let fin = char::from_u32(0x40 + r.n(0x3f) as u32).unwrap();
    let prefix = match r.n(8) {
        0..=3 => "".to_string(),
        4 => "?".to_string(),
        5 => r.pick(&["<", "=", ">"]).to_string(),
        _ => "".to_string(),
    };
    let inter = match r.n(8) {
        0 => char::from_u32(0x20 + r.n(16) as u32).unwrap().to_string(),
        1 => "!".to_string(),
        _ => String::new(),
    };
    let params = match r.n(14) {
        0 => String::new(),
        1 => "0".into(),
        2 => "1".into(),
        3 => "65535".into(),
        4 => "65536".into(),
        5 => format!("{};{}", r.n(100), r.n(100)),
        6 => format!(";{}", r.n(100)),
        7 => format!("{};", r.n(100)),
        8 => (0..r.range(30, 36)).map(|i| format!("{}", i % 50)).collect::<Vec<_>>().join(";"),
        9 => (0..r.range(2, 8)).map(|_| format!("{}", r.n(300))).collect::<Vec<_>>().join(":"),
        10 => format!("{};{};{}", r.n(10), r.n(3000), r.n(3000)),
        11 => "8;24;80".into(),
        12 => format!("{}", r.n(70000)),
        _ => format!("{}", r.n(30)),
    };
    format!("{}{}{}{}{}", gen::csi(r), prefix, params, inter, fin)
}

pub fn parser_streams(args: &Args, r: &mut Rng) -> i32 {
    let mut episodes = args.num("episodes", 100);
    let out = args.str("out", "trace.ndjson");
    let mut f = BufWriter::new(File::create(&out).expect("create"));
    let mut events = 0u64;
    let mut chars = 0u64;
    // --shapes: the bounded-exhaustive parameter-shape tokens of C03S straight into the parser, where the
    // dispatched Function itself is observed (40 tokens per episode, sharded)
    let shapes: Vec<String> = if args.num("shapes", 0) == 1 {
        let (shard, shards) = (args.num("shard", 0), args.num("shards", 1));
        crate::drivers::shape_tokens().into_iter().enumerate().filter(|(i, _)| (*i as u64) % shards == shard).map(|(_, t)| t).collect()
    } else {
        Vec::new()
    };
    if !shapes.is_empty() {
        episodes = (shapes.len() as u64 + 39) / 40;
    }
    let mut next_shape = 0usize;
    for ep in 0..episodes {
        writeln!(f, "{{\"ev\":\"ep\",\"id\":{},\"drv\":\"C03P\"}}", ep + 1).unwrap();
        writeln!(f, "{{\"ev\":\"pnew\"}}").unwrap();
        let mut p = Parser::new();
        let n = if shapes.is_empty() { r.range(3, 20) } else { 40.min(shapes.len() - next_shape) };
        for _ in 0..n {
            let s = if !shapes.is_empty() {
                next_shape += 1;
                shapes[next_shape - 1].clone()
            } else { match r.n(10) {
                0..=3 => seq_shapes(r),
                4 => gen::sgr(r),
                5 => gen::control_string(r),
                6 => gen::unimplemented(r),
                7 => {
                    // truncated sequence followed by something else (stale state)
                    let t = seq_shapes(r);
                    let cs: Vec<char> = t.chars().collect();
                    let k = r.range(1, cs.len());
                    cs[..k].iter().collect()
                }
                8 => {
                    let v: String = (0..r.range(1, 5))
                        .map(|_| loop {
                            if let Some(c) = char::from_u32(r.n(0x2000) as u32) {
                                break c;
                            }
                        })
                        .collect();
                    v
                }
                _ => gen::token(r, &GENERAL, 10, 5),
            } };
            let mut line = String::new();
            line.push_str("{\"ev\":\"pf\",\"s\":");
            obs::str_cps(&mut line, &s);
            line.push_str(",\"outs\":[");
            let res = std::panic::catch_unwind(std::panic::AssertUnwindSafe(|| {
                for (i, c) in s.chars().enumerate() {
                    if i > 0 {
                        line.push(',');
                    }
                    let o = p.feed(c);
                    obs::function(&mut line, &o);
                    chars += 1;
                }
                line.push_str("],\"st\":");
                let clean = obs::parser_state(&mut line, &p);
                let _ = write!(line, ",\"clean\":{}}}", clean);
            }));
            if res.is_err() {
                // a panic is data: the rest of this episode is abandoned, TLC reports FAIL C01
                let mut pl = String::from("{\"ev\":\"panic\",\"slot\":0,\"op\":\"parser\",\"msg\":\"parser panicked on ");
                for c in s.chars() {
                    let _ = write!(pl, "U+{:04X} ", c as u32);
                }
                pl.push_str("\"}");
                writeln!(f, "{}", pl).unwrap();
                events += 1;
                break;
            }
            writeln!(f, "{}", line).unwrap();
            events += 1;
        }
    }
    f.flush().unwrap();
    println!("{{\"driver\":\"C03P\",\"episodes\":{},\"events\":{},\"panics\":0,\"chars\":{},\"distinct_nontrivial\":{}}}", episodes, events, chars, events);
    0
}
