//! Observation of the real `Vt`/`Parser`: projects the implementation's state into
//! exactly the JSON shape of the TLA+ specification's records (spec/Base.tla ff.).
//!
//! Publicly observable components (geometry, every cell of `lines()`, pens through the
//! public `Pen` accessors, wrap marks through `TextUnwrapper`, cursor, cursor-key mode)
//! are read through the PUBLIC API; hidden state comes from the `verif` feature hook.

use avt::parser::{Function, Parser, State};
use avt::util::TextUnwrapper;
use avt::verif::{BufferState, CtxState, ParserState};
use avt::{Color, Line, Pen, Vt};
use std::fmt::Write;

pub fn color(c: Option<Color>) -> i64 {
    match c {
        None => -1,
        Some(Color::Indexed(i)) => i as i64,
        Some(Color::RGB(c)) => 256 + ((c.r as i64) << 16) + ((c.g as i64) << 8) + (c.b as i64),
    }
}

/// Pen as <<fg, bg, intensity, attrs>> built from the public accessors only.
pub fn pen(out: &mut String, p: &Pen) {
    let int = match (p.is_bold(), p.is_faint()) {
        (false, false) => 0,
        (true, false) => 1,
        (false, true) => 2,
        (true, true) => 3,
    };
    let attrs = (p.is_italic() as u8)
        | (p.is_underline() as u8) << 1
        | (p.is_strikethrough() as u8) << 2
        | (p.is_blink() as u8) << 3
        | (p.is_inverse() as u8) << 4;
    let _ = write!(out, "[{},{},{},{}]", color(p.foreground()), color(p.background()), int, attrs);
}

pub fn wrapped_public(l: &Line) -> bool {
    TextUnwrapper::new().push(l).is_none()
}

pub fn line(out: &mut String, l: &Line, wrapped: bool) {
    out.push_str("{\"c\":[");
    let mut last: Option<(Pen, usize, usize)> = None; // cache of the rendered pen
    for (i, c) in l.cells().iter().enumerate() {
        if i > 0 {
            out.push(',');
        }
        let _ = write!(out, "[{},", c.char() as u32);
        match last {
            Some((p, a, b)) if &p == c.pen() => {
                let s = out[a..b].to_owned();
                out.push_str(&s);
            }
            _ => {
                let a = out.len();
                pen(out, c.pen());
                last = Some((*c.pen(), a, out.len()));
            }
        }
        out.push(']');
    }
    let _ = write!(out, "],\"w\":{}}}", wrapped);
}

pub fn lines_public(out: &mut String, ls: &[Line]) {
    out.push('[');
    for (i, l) in ls.iter().enumerate() {
        if i > 0 {
            out.push(',');
        }
        line(out, l, wrapped_public(l));
    }
    out.push(']');
}

fn lines_hook(out: &mut String, ls: &[Line]) {
    out.push('[');
    for (i, l) in ls.iter().enumerate() {
        if i > 0 {
            out.push(',');
        }
        line(out, l, avt::verif::line_wrapped(l));
    }
    out.push(']');
}

fn lim(l: Option<usize>) -> i64 {
    match l {
        None => -1,
        Some(n) => n as i64,
    }
}

fn buffer(out: &mut String, b: &BufferState, public_lines: Option<&[Line]>) {
    out.push_str("{\"lines\":");
    match public_lines {
        Some(ls) => lines_public(out, ls),
        None => lines_hook(out, &b.lines),
    }
    let _ = write!(
        out,
        ",\"cols\":{},\"rows\":{},\"lim\":{},\"trim\":{}}}",
        b.cols,
        b.rows,
        lim(b.limit),
        b.trim_needed
    );
}

fn ctx(out: &mut String, c: &CtxState) {
    let _ = write!(out, "{{\"col\":{},\"row\":{},\"pen\":", c.col, c.row);
    pen(out, &c.pen);
    let _ = write!(out, ",\"origin\":{},\"autowrap\":{}}}", c.origin_mode, c.auto_wrap_mode);
}

pub fn state_name(s: State) -> &'static str {
    use State::*;
    match s {
        Ground => "Ground",
        Escape => "Escape",
        EscapeIntermediate => "EscapeIntermediate",
        CsiEntry => "CsiEntry",
        CsiParam => "CsiParam",
        CsiIntermediate => "CsiIntermediate",
        CsiIgnore => "CsiIgnore",
        DcsEntry => "DcsEntry",
        DcsParam => "DcsParam",
        DcsIntermediate => "DcsIntermediate",
        DcsPassthrough => "DcsPassthrough",
        DcsIgnore => "DcsIgnore",
        OscString => "OscString",
        SosPmApcString => "SosPmApcString",
    }
}

/// Parser as [state, params (live prefix), inter]; returns whether everything beyond the
/// live prefix is zero (the `clean` observation).
pub fn parser(out: &mut String, p: &ParserState, public_state: State) -> bool {
    let _ = write!(out, "{{\"state\":\"{}\",\"params\":[", state_name(public_state));
    let mut clean = true;
    for (i, (cur_part, parts)) in p.params.iter().enumerate() {
        if i <= p.cur_param {
            if i > 0 {
                out.push(',');
            }
            out.push('[');
            for (k, v) in parts.iter().enumerate() {
                if k <= *cur_part {
                    if k > 0 {
                        out.push(',');
                    }
                    let _ = write!(out, "{}", v);
                } else if *v != 0 {
                    clean = false;
                }
            }
            out.push(']');
        } else if *cur_part != 0 || parts.iter().any(|v| *v != 0) {
            clean = false;
        }
    }
    let _ = write!(
        out,
        "],\"inter\":{}}}",
        match p.intermediate {
            None => -1,
            Some(c) => c as i64,
        }
    );
    clean && public_state == p.state
}

pub struct Extra {
    pub clean: bool,
    /// public accessors agree with the hook's view of the same fields
    pub hook_agrees: bool,
    pub nlines: usize,
}

/// Full state `[p |-> ..., t |-> ...]`.
pub fn vt_state(out: &mut String, vt: &Vt) -> Extra {
    let h = vt.verif_state();
    let t = &h.terminal;
    let (cols, rows) = vt.size();
    let cur = vt.cursor();
    let ckm = vt.cursor_key_app_mode();
    out.push_str("{\"p\":");
    // the embedded parser has no public accessor: its state comes from the hook
    let clean = parser(out, &h.parser, h.parser.state);
    let _ = write!(out, ",\"t\":{{\"cols\":{},\"rows\":{},\"buf\":", cols, rows);
    buffer(out, &t.buffer, Some(vt.lines()));
    out.push_str(",\"other\":");
    buffer(out, &t.other_buffer, None);
    let _ = write!(
        out,
        ",\"alt\":{},\"lim\":{},\"col\":{},\"row\":{},\"vis\":{},\"pen\":",
        t.alternate_active,
        lim(t.scrollback_limit),
        cur.col,
        cur.row,
        cur.visible
    );
    pen(out, &t.pen);
    let _ = write!(
        out,
        ",\"g0\":{},\"g1\":{},\"gl\":{},\"tabs\":{:?}",
        t.charsets_drawing[0] as u8, t.charsets_drawing[1] as u8, t.active_charset, t.tabs
    );
    let _ = write!(
        out,
        ",\"insert\":{},\"origin\":{},\"autowrap\":{},\"newline\":{},\"ckm\":{},\"pw\":{},\"top\":{},\"bottom\":{},\"saved\":",
        t.insert_mode, t.origin_mode, t.auto_wrap_mode, t.new_line_mode, ckm, t.pending_wrap, t.top_margin, t.bottom_margin
    );
    ctx(out, &t.saved_ctx);
    out.push_str(",\"asaved\":");
    ctx(out, &t.alternate_saved_ctx);
    let _ = write!(out, ",\"dirty\":{:?}}}}}", t.dirty_lines);
    let hook_agrees = t.cols == cols
        && t.rows == rows
        && t.cursor_col == cur.col
        && t.cursor_row == cur.row
        && t.cursor_visible == cur.visible
        && t.cursor_keys_app_mode == ckm
        && t.buffer.lines.len() == vt.lines().len()
        && !t.xtwinops;
    Extra { clean, hook_agrees, nlines: vt.lines().len() }
}

pub fn parser_state(out: &mut String, p: &Parser) -> bool {
    let h = p.verif_state();
    parser(out, &h, p.state)
}

fn sgr_ops(out: &mut String, ops: &[avt::parser::SgrOp]) {
    use avt::parser::SgrOp::*;
    out.push('[');
    for (i, op) in ops.iter().enumerate() {
        if i > 0 {
            out.push(',');
        }
        let (k, v): (i64, i64) = match op {
            Reset => (0, 0),
            SetBoldIntensity => (1, 0),
            SetFaintIntensity => (2, 0),
            SetItalic => (3, 0),
            SetUnderline => (4, 0),
            SetBlink => (5, 0),
            SetInverse => (7, 0),
            SetStrikethrough => (9, 0),
            ResetIntensity => (22, 0),
            ResetItalic => (23, 0),
            ResetUnderline => (24, 0),
            ResetBlink => (25, 0),
            ResetInverse => (27, 0),
            ResetStrikethrough => (29, 0),
            SetForegroundColor(c) => (38, color(Some(*c))),
            ResetForegroundColor => (39, 0),
            SetBackgroundColor(c) => (48, color(Some(*c))),
            ResetBackgroundColor => (49, 0),
        };
        let _ = write!(out, "[{},{}]", k, v);
    }
    out.push(']');
}

/// A parser output as `[f |-> name, a |-> <<args>>]` (selectors as their numeric parameter).
pub fn function(out: &mut String, f: &Option<Function>) {
    use avt::parser::*;
    use Function::*;
    let f = match f {
        None => {
            out.push_str("{\"f\":\"None\",\"a\":[]}");
            return;
        }
        Some(f) => f,
    };
    let one = |out: &mut String, name: &str, n: u16| {
        let _ = write!(out, "{{\"f\":\"{}\",\"a\":[{}]}}", name, n);
    };
    let zero = |out: &mut String, name: &str| {
        let _ = write!(out, "{{\"f\":\"{}\",\"a\":[]}}", name);
    };
    match f {
        Bs => zero(out, "Bs"),
        Cbt(n) => one(out, "Cbt", *n),
        Cha(n) => one(out, "Cha", *n),
        Cht(n) => one(out, "Cht", *n),
        Cnl(n) => one(out, "Cnl", *n),
        Cpl(n) => one(out, "Cpl", *n),
        Cr => zero(out, "Cr"),
        Ctc(op) => one(
            out,
            "Ctc",
            match op {
                CtcOp::Set => 0,
                CtcOp::ClearCurrentColumn => 2,
                CtcOp::ClearAll => 5,
            },
        ),
        Cub(n) => one(out, "Cub", *n),
        Cud(n) => one(out, "Cud", *n),
        Cuf(n) => one(out, "Cuf", *n),
        Cup(r, c) => {
            let _ = write!(out, "{{\"f\":\"Cup\",\"a\":[{},{}]}}", r, c);
        }
        Cuu(n) => one(out, "Cuu", *n),
        Dch(n) => one(out, "Dch", *n),
        Decaln => zero(out, "Decaln"),
        Decrc => zero(out, "Decrc"),
        Decrst(ms) | Decset(ms) => {
            let name = if matches!(f, Decrst(_)) { "Decrst" } else { "Decset" };
            let v: Vec<u16> = ms
                .iter()
                .map(|m| match m {
                    DecMode::CursorKeys => 1,
                    DecMode::Origin => 6,
                    DecMode::AutoWrap => 7,
                    DecMode::TextCursorEnable => 25,
                    DecMode::AltScreenBuffer => 1047,
                    DecMode::SaveCursor => 1048,
                    DecMode::SaveCursorAltScreenBuffer => 1049,
                })
                .collect();
            let _ = write!(out, "{{\"f\":\"{}\",\"a\":{:?}}}", name, v);
        }
        Decsc => zero(out, "Decsc"),
        Decstbm(t, b) => {
            let _ = write!(out, "{{\"f\":\"Decstbm\",\"a\":[{},{}]}}", t, b);
        }
        Decstr => zero(out, "Decstr"),
        Dl(n) => one(out, "Dl", *n),
        Ech(n) => one(out, "Ech", *n),
        Ed(s) => one(
            out,
            "Ed",
            match s {
                EdScope::Below => 0,
                EdScope::Above => 1,
                EdScope::All => 2,
                EdScope::SavedLines => 3,
            },
        ),
        El(s) => one(
            out,
            "El",
            match s {
                ElScope::ToRight => 0,
                ElScope::ToLeft => 1,
                ElScope::All => 2,
            },
        ),
        G1d4(cs) => one(out, "G1d4", (format!("{:?}", cs) == "Drawing") as u16),
        Gzd4(cs) => one(out, "Gzd4", (format!("{:?}", cs) == "Drawing") as u16),
        Ht => zero(out, "Ht"),
        Hts => zero(out, "Hts"),
        Ich(n) => one(out, "Ich", *n),
        Il(n) => one(out, "Il", *n),
        Lf => zero(out, "Lf"),
        Nel => zero(out, "Nel"),
        Print(c) => {
            let _ = write!(out, "{{\"f\":\"Print\",\"a\":[{}]}}", *c as u32);
        }
        Rep(n) => one(out, "Rep", *n),
        Ri => zero(out, "Ri"),
        Ris => zero(out, "Ris"),
        Rm(ms) | Sm(ms) => {
            let name = if matches!(f, Rm(_)) { "Rm" } else { "Sm" };
            let v: Vec<u16> = ms
                .iter()
                .map(|m| match m {
                    AnsiMode::Insert => 4,
                    AnsiMode::NewLine => 20,
                })
                .collect();
            let _ = write!(out, "{{\"f\":\"{}\",\"a\":{:?}}}", name, v);
        }
        Scorc => zero(out, "Scorc"),
        Scosc => zero(out, "Scosc"),
        Sd(n) => one(out, "Sd", *n),
        Sgr(ops) => {
            out.push_str("{\"f\":\"Sgr\",\"a\":");
            sgr_ops(out, ops);
            out.push('}');
        }
        Si => zero(out, "Si"),
        So => zero(out, "So"),
        Su(n) => one(out, "Su", *n),
        Tbc(s) => one(
            out,
            "Tbc",
            match s {
                TbcScope::CurrentColumn => 0,
                TbcScope::All => 3,
            },
        ),
        Vpa(n) => one(out, "Vpa", *n),
        Vpr(n) => one(out, "Vpr", *n),
        Xtwinops(XtwinopsOp::Resize(c, r)) => {
            let _ = write!(out, "{{\"f\":\"Xtwinops\",\"a\":[{},{}]}}", c, r);
        }
    }
}

pub fn cps(out: &mut String, s: &[char]) {
    out.push('[');
    for (i, c) in s.iter().enumerate() {
        if i > 0 {
            out.push(',');
        }
        let _ = write!(out, "{}", *c as u32);
    }
    out.push(']');
}

pub fn str_cps(out: &mut String, s: &str) {
    let v: Vec<char> = s.chars().collect();
    cps(out, &v);
}
