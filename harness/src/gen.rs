//! Token generators: one token = one printable character, one control, or one complete
//! escape/control sequence (so that one `feed_str` call = one specification function).

pub struct Rng(pub u64);
impl Rng {
    pub fn new(seed: u64) -> Self {
        let mut r = Rng(seed ^ 0x9E3779B97F4A7C15);
        r.next();
        r
    }
    pub fn next(&mut self) -> u64 {
        // splitmix64
        self.0 = self.0.wrapping_add(0x9E3779B97F4A7C15);
        let mut z = self.0;
        z = (z ^ (z >> 30)).wrapping_mul(0xBF58476D1CE4E5B9);
        z = (z ^ (z >> 27)).wrapping_mul(0x94D049BB133111EB);
        z ^ (z >> 31)
    }
    pub fn n(&mut self, m: u64) -> u64 {
        if m == 0 {
            0
        } else {
            self.next() % m
        }
    }
    pub fn range(&mut self, lo: usize, hi: usize) -> usize {
        lo + self.n((hi - lo + 1) as u64) as usize
    }
    pub fn chance(&mut self, num: u64, den: u64) -> bool {
        self.n(den) < num
    }
    pub fn pick<'a, T>(&mut self, xs: &'a [T]) -> &'a T {
        &xs[self.n(xs.len() as u64) as usize]
    }
}

/// Parameter value classes around an edge `e`: 0 (default), 1, 2, e-1, e, e+1, 65535, random.
pub fn count(r: &mut Rng, e: usize) -> u32 {
    match r.n(9) {
        0 => 0,
        1 => 1,
        2 => 2,
        3 => e.saturating_sub(1) as u32,
        4 => e as u32,
        5 => (e + 1) as u32,
        6 => 65535,
        _ => r.n(e as u64 + 2) as u32,
    }
}

pub fn csi(r: &mut Rng) -> &'static str {
    if r.chance(1, 4) {
        "\u{9b}"
    } else {
        "\x1b["
    }
}

fn num(v: u32) -> String {
    if v == 0 {
        String::new()
    } else {
        v.to_string()
    }
}

/// CSI with one numeric parameter (0 is written as an omitted parameter half of the time).
pub fn csi1(v: u32, fin: &str, r: &mut Rng) -> String {
    let p = if v == 0 && r.chance(1, 2) { "0".to_string() } else { num(v) };
    format!("{}{}{}", csi(r), p, fin)
}

pub fn csi2(a: u32, b: u32, fin: &str, r: &mut Rng) -> String {
    let pa = if a == 0 && r.chance(1, 2) { "0".to_string() } else { num(a) };
    let pb = if b == 0 && r.chance(1, 2) { "0".to_string() } else { num(b) };
    if pb.is_empty() && r.chance(1, 2) {
        format!("{}{}{}", csi(r), pa, fin)
    } else {
        format!("{}{};{}{}", csi(r), pa, pb, fin)
    }
}

// incl. characters above U+00FF whose LOW BYTE lies in the drawing range 0x60-0x7E (ち U+3061, 乱 U+4E71, Ÿ U+0178),
// double-width characters (世, 漢), a combining mark and a character outside the BMP
pub const PRINTABLE: &[char] = &['a', 'b', 'c', 'x', ' ', ' ', 'q', '~', '`', '\u{7f}', 'é', '世', '\u{a0}', '─', 'Z', '0', 'ち', '乱', 'Ÿ', '漢', '\u{301}', '\u{1f600}'];

pub fn print(r: &mut Rng) -> String {
    r.pick(PRINTABLE).to_string()
}

pub fn c0(r: &mut Rng) -> String {
    r.pick(&["\x08", "\t", "\n", "\x0b", "\x0c", "\r", "\r", "\n", "\u{84}", "\u{85}", "\x1bD", "\x1bE"]).to_string()
}

pub fn ri(r: &mut Rng) -> String {
    r.pick(&["\x1bM", "\u{8d}"]).to_string()
}

pub fn cursor(r: &mut Rng, cols: usize, rows: usize) -> String {
    match r.n(23) {
        17 | 18 => ri(r),
        19 => "\n".to_string(),
        20 => "\x1bD".to_string(),
        21 => "\u{85}".to_string(),
        22 => "\r".to_string(),
        0 => csi1(count(r, rows), "A", r),
        1 => csi1(count(r, rows), "B", r),
        2 => csi1(count(r, cols), "C", r),
        3 => csi1(count(r, cols), "D", r),
        4 => csi1(count(r, rows), "E", r),
        5 => csi1(count(r, rows), "F", r),
        6 => csi1(count(r, cols), "G", r),
        7 => csi2(count(r, rows), count(r, cols), "H", r),
        8 => csi2(count(r, rows), count(r, cols), "f", r),
        9 => csi1(count(r, cols), "`", r),
        10 => csi1(count(r, cols), "a", r),
        11 => csi1(count(r, rows), "d", r),
        12 => csi1(count(r, rows), "e", r),
        13 => csi1(count(r, 3), "I", r),
        14 => csi1(count(r, 3), "Z", r),
        15 => "\x08".to_string(),
        _ => "\t".to_string(),
    }
}

pub fn edit(r: &mut Rng, cols: usize) -> String {
    match r.n(8) {
        0 => csi1(count(r, cols), "@", r),
        1 => csi1(count(r, cols), "P", r),
        2 => csi1(count(r, cols), "X", r),
        3 => csi1(r.n(3) as u32, "K", r),
        4 => csi1(r.n(4) as u32, "J", r),
        5 => "\x1b#8".to_string(),
        6 => csi1(r.n(3) as u32, "K", r),
        _ => csi1(count(r, cols), "X", r),
    }
}

/// Repeat counts that may scroll are capped (the specification's cost is quadratic there).
pub fn capped(v: u32, cap: u32) -> u32 {
    if v > cap {
        cap
    } else {
        v
    }
}

pub fn scroll(r: &mut Rng, rows: usize) -> String {
    match r.n(8) {
        0 => csi1(count(r, rows), "L", r),
        1 => csi1(count(r, rows), "M", r),
        2 => csi1(count(r, rows), "S", r),
        3 => csi1(count(r, rows), "T", r),
        4 => "\n".to_string(),
        5 => ri(r),
        6 => "\u{85}".to_string(),
        _ => "\x1bD".to_string(),
    }
}

pub fn rep(r: &mut Rng, cols: usize) -> String {
    let v = capped(count(r, cols), 40);
    csi1(v, "b", r)
}

pub fn margins(r: &mut Rng, rows: usize) -> String {
    if r.chance(1, 6) {
        return format!("{}r", csi(r));
    }
    let a = count(r, rows);
    let b = count(r, rows);
    csi2(a, b, "r", r)
}

pub fn valid_margins(r: &mut Rng, rows: usize) -> String {
    if rows < 2 {
        return margins(r, rows);
    }
    let t = r.range(1, rows - 1);
    let b = r.range(t + 1, rows);
    format!("{}{};{}r", csi(r), t, b)
}

pub fn ansi_mode(r: &mut Rng) -> String {
    let m = *r.pick(&["4", "20", "4;20", "20;4", "3", "4;99"]);
    format!("{}{}{}", csi(r), m, if r.chance(1, 2) { "h" } else { "l" })
}

pub fn dec_mode_simple(r: &mut Rng) -> String {
    let m = *r.pick(&["1", "6", "7", "25", "6", "7", "7;6", "1;25", "12", "2004"]);
    format!("{}?{}{}", csi(r), m, if r.chance(1, 2) { "h" } else { "l" })
}

pub fn alt_screen(r: &mut Rng) -> String {
    let m = *r.pick(&["47", "1047", "1049", "1049", "1047", "1048", "1049;6", "7;1047"]);
    format!("{}?{}{}", csi(r), m, if r.chance(1, 2) { "h" } else { "l" })
}

pub fn enter_alt(r: &mut Rng) -> String {
    format!("{}?{}h", csi(r), r.pick(&["47", "1047", "1049"]))
}

pub fn leave_alt(r: &mut Rng) -> String {
    format!("{}?{}l", csi(r), r.pick(&["47", "1047", "1049"]))
}

pub fn save(r: &mut Rng) -> String {
    match r.n(4) {
        0 => "\x1b7".to_string(),
        1 => format!("{}s", csi(r)),
        2 => format!("{}?1048h", csi(r)),
        _ => "\x1b7".to_string(),
    }
}

pub fn restore(r: &mut Rng) -> String {
    match r.n(4) {
        0 => "\x1b8".to_string(),
        1 => format!("{}u", csi(r)),
        2 => format!("{}?1048l", csi(r)),
        _ => "\x1b8".to_string(),
    }
}

pub fn charset(r: &mut Rng) -> String {
    r.pick(&["\x1b(0", "\x1b(B", "\x1b)0", "\x1b)B", "\x0e", "\x0f", "\x0e", "\x1b(A", "\x1b)é"]).to_string()
}

/// A palette index, half of the time one of the boundaries between the encodings (8 basic, 8 bright, cube, greys).
fn colour_index(r: &mut Rng) -> u64 {
    if r.chance(1, 2) {
        *r.pick(&[0u64, 7, 8, 15, 16, 17, 231, 232, 255])
    } else {
        r.n(256)
    }
}

pub fn sgr_param(r: &mut Rng) -> String {
    match r.n(24) {
        0 => String::new(),
        1 => "0".into(),
        2 => r.pick(&["1", "2", "21", "22"]).to_string(),
        3 => r.pick(&["3", "4", "5", "7", "9"]).to_string(),
        4 => r.pick(&["23", "24", "25", "27", "29"]).to_string(),
        5 => format!("{}", 30 + r.n(8)),
        6 => format!("{}", 40 + r.n(8)),
        7 => format!("{}", 90 + r.n(8)),
        8 => format!("{}", 100 + r.n(8)),
        9 => "39".into(),
        10 => "49".into(),
        11 => format!("38;5;{}", colour_index(r)),
        12 => format!("48;5;{}", colour_index(r)),
        13 => format!("38:5:{}", colour_index(r)),
        14 => format!("48:5:{}", colour_index(r)),
        15 => format!("38;2;{};{};{}", r.n(256), r.n(256), r.n(256)),
        16 => format!("48;2;{};{};{}", r.n(256), r.n(256), r.n(256)),
        17 => format!("38:2:{}:{}:{}", r.n(256), r.n(256), r.n(256)),
        18 => format!("48:2::{}:{}:{}", r.n(256), r.n(256), r.n(256)),
        19 => {
            if r.chance(1, 2) {
                format!("38:2::{}:{}:{}", r.n(256), r.n(300), r.n(70000))
            } else {
                // a non-empty colour-space id in the 6-part form (ignored, like an empty one)
                format!("{}:2:{}:{}:{}:{}", r.pick(&["38", "48"]), r.range(1, 9), r.n(256), r.n(256), r.n(256))
            }
        }
        20 => r.pick(&["6", "8", "10", "26", "28", "50", "98", "108", "65535", "38", "48", "38;5", "48;2;1;2", "38:5", "38:2:1:2", "38;7", "1:2", "4:3"]).to_string(),
        21 => format!("{}", r.n(120)),
        22 => format!("38;5;{}", r.n(70000)),
        _ => format!("{}", 30 + r.n(20)),
    }
}

pub fn sgr(r: &mut Rng) -> String {
    let n = match r.n(6) {
        0 => 0,
        1 | 2 => 1,
        3 => 2,
        4 => 3,
        _ => r.range(1, 12),
    };
    let ps: Vec<String> = (0..n).map(|_| sgr_param(r)).collect();
    format!("{}{}m", csi(r), ps.join(";"))
}

/// A small SGR alphabet giving visibly different pens (for scroll/erase drivers).
pub fn sgr_small(r: &mut Rng) -> String {
    r.pick(&["\x1b[m", "\x1b[41m", "\x1b[1m", "\x1b[32;44m", "\x1b[7m", "\x1b[0m", "\x1b[48;5;200m", "\x1b[3;4m"]).to_string()
}

pub fn tabs(r: &mut Rng) -> String {
    match r.n(8) {
        0 => "\x1bH".to_string(),
        1 => "\u{88}".to_string(),
        2 => format!("{}W", csi(r)),
        3 => format!("{}0W", csi(r)),
        4 => format!("{}2W", csi(r)),
        5 => format!("{}5W", csi(r)),
        6 => format!("{}g", csi(r)),
        _ => format!("{}3g", csi(r)),
    }
}

pub fn tab_move(r: &mut Rng) -> String {
    match r.n(4) {
        0 => "\t".to_string(),
        1 => csi1(count(r, 3), "I", r),
        2 => csi1(count(r, 3), "Z", r),
        _ => "\r".to_string(),
    }
}

pub fn payload(r: &mut Rng, osc: bool) -> String {
    let n = match r.n(4) {
        0 => 0,
        1 => r.range(1, 4),
        2 => r.range(1, 20),
        _ => r.range(1, 60),
    };
    let mut s = String::new();
    for _ in 0..n {
        let c = match r.n(10) {
            0..=4 => char::from_u32(0x20 + r.n(0x5f) as u32).unwrap(),
            5 => *r.pick(&['é', '世', '\u{a0}', '\u{ff}', '─', '\u{10ffff}']),
            6 => {
                // C0 except CAN, SUB, ESC (and BEL for OSC)
                let c = *r.pick(&[0u32, 1, 5, 7, 8, 9, 10, 13, 14, 15, 0x1c, 0x1f, 0x7f]);
                if osc && c == 7 {
                    'a'
                } else {
                    char::from_u32(c).unwrap()
                }
            }
            7 => *r.pick(&[';', ':', '?', '0', '9', '[', ']', 'm', 'c', 'H']),
            _ => *r.pick(&['a', 'b', '1', ' ']),
        };
        s.push(c);
    }
    s
}

/// Control strings: OSC / DCS / SOS / PM / APC, 7- or 8-bit introducer, ST (7/8 bit) or BEL (OSC).
pub fn control_string(r: &mut Rng) -> String {
    let kind = r.n(5);
    let eight = r.chance(1, 2);
    let intro = match (kind, eight) {
        (0, false) => "\x1b]",
        (0, true) => "\u{9d}",
        (1, false) => "\x1bP",
        (1, true) => "\u{90}",
        (2, false) => "\x1bX",
        (2, true) => "\u{98}",
        (3, false) => "\x1b^",
        (3, true) => "\u{9e}",
        (4, false) => "\x1b_",
        _ => "\u{9f}",
    };
    let term = match r.n(3) {
        0 => "\x1b\\",
        1 => "\u{9c}",
        _ => {
            if kind == 0 {
                "\x07"
            } else {
                "\u{9c}"
            }
        }
    };
    let mut pl = payload(r, kind == 0);
    if kind == 1 && r.chance(1, 4) {
        // a DCS with 30..35 parameters before its final byte (the parameter array saturates at 32)
        let n = r.range(30, 35);
        let ps: Vec<String> = (0..n).map(|i| if r.chance(1, 4) { String::new() } else { format!("{}", (i * 3) % 70) }).collect();
        pl = format!("{}{}{}", ps.join(";"), r.pick(&["q", "|", "{", "p"]), pl);
    }
    format!("{}{}{}", intro, pl, term)
}

/// A control string whose payload is NOT restricted: C1 controls, CAN, SUB, ESC, BEL anywhere, followed by
/// visible text - what is swallowed and what is printed depends on every single transition (C12, C03).
pub fn messy_string(r: &mut Rng) -> String {
    if r.chance(1, 3) {
        // one string kind opened inside another: which terminator ends what?
        let outer = *r.pick(&["\x1b]", "\u{9d}", "\x1bP", "\u{90}1;2q", "\x1b_"]);
        let inner = *r.pick(&['\u{98}', '\u{9e}', '\u{9f}', '\u{9d}', '\u{90}']);
        let t1: &str = *r.pick(&["\x07", "\u{9c}", "\x1b\\"]);
        let t2: &str = *r.pick(&["\x1b\\", "\u{9c}", "\x07", ""]);
        return format!("{}0;ti{}tle{}visible{}ok", outer, inner, t1, t2);
    }
    let intro = *r.pick(&["\x1b]", "\u{9d}", "\x1bP", "\u{90}", "\x1bX", "\u{98}", "\x1b^", "\u{9e}", "\x1b_", "\u{9f}"]);
    let mut s = String::from(intro);
    for _ in 0..r.range(1, 8) {
        let c = match r.n(6) {
            0 => *r.pick(&['\u{98}', '\u{9e}', '\u{9f}', '\u{9d}', '\u{90}', '\u{9b}', '\u{9c}', '\u{84}', '\u{85}', '\u{8d}']),
            1 => *r.pick(&['\x07', '\x18', '\x1a', '\x1b', '\n', '\r']),
            _ => *r.pick(&['t', 'i', ';', '0', '1', ':', '?', 'm', 'H', ' ', 'é']),
        };
        s.push(c);
    }
    let term: &str = *r.pick(&["\x07", "\x1b\\", "\u{9c}", "\x07vis", "\x07v\x1b\\ok", ""]);
    s.push_str(term);
    let tail: &str = *r.pick(&["xy", "", "\r\nz", "\x1b[1mq"]);
    s.push_str(tail);
    s
}

/// CSI / ESC sequences and controls that avt does not implement.
pub fn unimplemented(r: &mut Rng) -> String {
    match r.n(10) {
        0 => {
            // CSI final outside the implemented table, no prefix
            let f = *r.pick(&['N', 'O', 'Q', 'R', 'U', 'V', 'Y', '[', '\\', ']', '^', '_', 'c', 'i', 'j', 'k', 'n', 'o', 'p', 'q', 'v', 'w', 'x', 'y', 'z', '{', '|', '}', '~']);
            let ps = if r.chance(1, 3) {
                r.pick(&["1:2:3:4:5:6:7", "::::::", "4::::::;2", "1:2:3:4:5:6:7:8:9;1:2:3:4:5:6:7:8", "9;8:7:6:5:4:3:2:1", ":::::::1"]).to_string()
            } else {
                num(count(r, 5))
            };
            format!("{}{}{}", csi(r), ps, f)
        }
        1 => {
            // private marker < = > with any final
            let m = *r.pick(&['<', '=', '>']);
            let f = char::from_u32(0x40 + r.n(0x3f) as u32).unwrap();
            format!("{}{}{}{}", csi(r), m, num(count(r, 5)), f)
        }
        2 => {
            // '?' with finals other than h / l
            let f = *r.pick(&['A', 'H', 'J', 'K', 'm', 'r', 'n', 'p', 'u', 's', 'c']);
            format!("{}?{}{}", csi(r), num(count(r, 30)), f)
        }
        3 => {
            // intermediates (except the DECSTR spelling "!p")
            let i = char::from_u32(0x20 + r.n(16) as u32).unwrap();
            let mut f = char::from_u32(0x40 + r.n(0x3f) as u32).unwrap();
            if i == '!' && f == 'p' {
                f = 'q';
            }
            format!("{}{}{}{}", csi(r), num(count(r, 5)), i, f)
        }
        4 => {
            // unimplemented ESC finals
            let f = *r.pick(&['1', '2', '3', '4', '5', '6', '9', ':', ';', '<', '=', '>', '?', '@', 'A', 'B', 'C', 'F', 'G', 'I', 'J', 'K', 'L', 'N', 'O', 'Q', 'R', 'S', 'T', 'U', 'V', 'W', 'Y', 'Z', '\\', 'a', 'b', 'd', 'g', 'n', 'o', '|', '}', '~']);
            if r.chance(1, 4) {
                // a final >= U+00A0 (handled like 'A': nothing), incl. characters whose LOW BYTE is an implemented final
                let g = *r.pick(&['\u{a0}', 'é', '\u{144}', '\u{145}', '\u{148}', '\u{14d}', '\u{4e45}', '\u{4e4d}', '\u{137}', '\u{138}', '\u{163}', '\u{1f637}']);
                return format!("\x1b{}", g);
            }
            format!("\x1b{}", f)
        }
        5 => {
            // ESC with intermediates other than ( ) and #8
            let i = *r.pick(&[' ', '!', '"', '$', '%', '&', '\'', '*', '+', ',', '-', '.', '/']);
            let f = char::from_u32(0x30 + r.n(0x4f) as u32).unwrap();
            format!("\x1b{}{}", i, f)
        }
        6 => {
            // unassigned C0
            let c = *r.pick(&[0u32, 1, 2, 3, 4, 5, 6, 7, 0x10, 0x11, 0x12, 0x13, 0x14, 0x15, 0x16, 0x17, 0x19, 0x1c, 0x1d, 0x1e, 0x1f]);
            char::from_u32(c).unwrap().to_string()
        }
        7 => {
            // unassigned C1
            let c = *r.pick(&[0x80u32, 0x81, 0x82, 0x83, 0x86, 0x87, 0x89, 0x8a, 0x8b, 0x8c, 0x8e, 0x8f, 0x91, 0x92, 0x93, 0x94, 0x95, 0x96, 0x97, 0x99, 0x9a, 0x9c]);
            char::from_u32(c).unwrap().to_string()
        }
        8 => {
            // selectors outside the implemented values
            let (v, f) = *r.pick(&[(4u32, "J"), (3, "K"), (9, "K"), (1, "W"), (3, "W"), (1, "g"), (2, "g"), (7, "t"), (9, "t")]);
            format!("{}{}{}", csi(r), v, f)
        }
        _ => {
            // ':' directly after CSI -> CsiIgnore; parameter after intermediate -> CsiIgnore
            let f = char::from_u32(0x40 + r.n(0x3f) as u32).unwrap();
            if r.chance(1, 2) {
                format!("{}:{}{}", csi(r), num(count(r, 5)), f)
            } else {
                format!("{}1 2{}", csi(r), f)
            }
        }
    }
}

/// "Near misses": implemented finals with meaningful parameters but an unimplemented private
/// marker or intermediate - inert by C20, one character away from something that is not.
pub fn near_miss(r: &mut Rng) -> String {
    let fin = *r.pick(&["h", "l", "h", "l", "m", "H", "J", "K", "r", "A", "B", "L", "M", "P", "@", "X", "S", "T", "b", "d", "g", "W", "s", "u", "p", "t", "G", "f"]);
    let params = *r.pick(&["4", "20", "4;20", "6", "7", "25", "1", "1047", "1049", "1048", "47", "2", "3", "5", "1;1", "2;3", "31", "7;6", "8;3;3", "", "0"]);
    match r.n(5) {
        0 => format!("{}{}{}{}", csi(r), r.pick(&["<", "=", ">"]), params, fin),
        1 => format!("{}{}{}{}", csi(r), params, r.pick(&[" ", "\"", "$", "#", "'", "*", "+", "/", "!"]), if fin == "p" { "q" } else { fin }),
        2 => {
            // '?' with an implemented non-mode final, or with h/l and non-DEC numbers
            let f2 = if fin == "h" || fin == "l" { "m" } else { fin };
            format!("{}?{}{}", csi(r), params, f2)
        }
        3 => {
            if r.chance(1, 3) {
                // several intermediates: the sequence is not the DECSTR spelling even if it starts like it
                format!("{}{}!{}p", csi(r), r.pick(&["", "1", "0"]), r.pick(&[" ", "$", "\"", "#", "'"]))
            } else {
                format!("{}?{}{}", csi(r), r.pick(&["4", "20", "2", "3", "5", "8", "12", "1000", "2004", "1046", "1050", "4;20"]), r.pick(&["h", "l"]))
            }
        }
        _ => format!("{}{}{}", csi(r), r.pick(&["1", "6", "7", "25", "47", "1047", "1048", "1049", "1;6", "5", "3"]), r.pick(&["h", "l"])),
    }
}

pub fn resets(r: &mut Rng) -> String {
    match r.n(3) {
        0 => format!("{}!p", csi(r)),
        _ => "\x1bc".to_string(),
    }
}

#[derive(Clone, Copy)]
pub struct Weights {
    pub print: u32,
    pub c0: u32,
    pub cursor: u32,
    pub edit: u32,
    pub scroll: u32,
    pub rep: u32,
    pub margins: u32,
    pub modes: u32,
    pub alt: u32,
    pub save: u32,
    pub charset: u32,
    pub sgr: u32,
    pub tabs: u32,
    pub decstr: u32,
    pub ris: u32,
    pub inert: u32,
}

pub const GENERAL: Weights = Weights { print: 30, c0: 8, cursor: 14, edit: 8, scroll: 8, rep: 2, margins: 4, modes: 5, alt: 3, save: 3, charset: 2, sgr: 4, tabs: 3, decstr: 1, ris: 1, inert: 2 };

/// Now and then stretch a CSI sequence to 31..34 parameters (separators and one more number before
/// the final byte): the fixed-size parameter array saturates at 32, and what lands where decides
/// which function - with which arguments - is executed.
fn stretch_params(r: &mut Rng, t: String) -> String {
    let cs: Vec<char> = t.chars().collect();
    let start = if cs.len() >= 3 && cs[0] == '\x1b' && cs[1] == '[' {
        2
    } else if cs.len() >= 2 && cs[0] == '\u{9b}' {
        1
    } else {
        return t;
    };
    let fin = cs.len() - 1;
    if !(('@'..='~').contains(&cs[fin])) || !cs[start..fin].iter().all(|c| c.is_ascii_digit() || *c == ';' || *c == '?') {
        return t;
    }
    let have = cs[start..fin].iter().filter(|c| **c == ';').count();
    let want = *r.pick(&[30usize, 31, 32, 33, 34]);
    if have >= want {
        return t;
    }
    let mut out: String = cs[..fin].iter().collect();
    for _ in have..want {
        out.push(';');
    }
    out.push_str(&format!("{}", r.n(30)));
    out.push(cs[fin]);
    out
}

pub fn token(r: &mut Rng, w: &Weights, cols: usize, rows: usize) -> String {
    let t = token_inner(r, w, cols, rows);
    if r.chance(1, 40) {
        stretch_params(r, t)
    } else if r.chance(1, 60) {
        stretch_subparams(r, t)
    } else {
        t
    }
}

/// More ':' sub-parameters than the parser stores (6) on the last parameter of a plain CSI sequence.
fn stretch_subparams(r: &mut Rng, t: String) -> String {
    let cs: Vec<char> = t.chars().collect();
    let start = if cs.len() >= 3 && cs[0] == '\x1b' && cs[1] == '[' {
        2
    } else if cs.len() >= 2 && cs[0] == '\u{9b}' {
        1
    } else {
        return t;
    };
    let fin = cs.len() - 1;
    if !(('@'..='~').contains(&cs[fin])) || !cs[start..fin].iter().all(|c| c.is_ascii_digit() || *c == ';' || *c == '?') {
        return t;
    }
    let mut out: String = cs[..fin].iter().collect();
    for _ in 0..r.range(4, 9) {
        out.push(':');
        if r.chance(2, 3) {
            out.push_str(&format!("{}", r.n(10)));
        }
    }
    out.push(cs[fin]);
    out
}

fn token_inner(r: &mut Rng, w: &Weights, cols: usize, rows: usize) -> String {
    let total = w.print + w.c0 + w.cursor + w.edit + w.scroll + w.rep + w.margins + w.modes + w.alt + w.save + w.charset + w.sgr + w.tabs + w.decstr + w.ris + w.inert;
    let mut k = r.n(total as u64) as u32;
    macro_rules! take {
        ($w:expr, $e:expr) => {
            if k < $w {
                return $e;
            }
            k -= $w;
        };
    }
    take!(w.print, print(r));
    take!(w.c0, c0(r));
    take!(w.cursor, cursor(r, cols, rows));
    take!(w.edit, edit(r, cols));
    take!(w.scroll, scroll(r, rows));
    take!(w.rep, rep(r, cols));
    take!(w.margins, margins(r, rows));
    take!(w.modes, if r.chance(1, 3) { ansi_mode(r) } else { dec_mode_simple(r) });
    take!(w.alt, alt_screen(r));
    take!(w.save, if r.chance(1, 2) { save(r) } else { restore(r) });
    take!(w.charset, charset(r));
    take!(w.sgr, if r.chance(1, 2) { sgr(r) } else { sgr_small(r) });
    take!(w.tabs, if r.chance(1, 2) { tabs(r) } else { tab_move(r) });
    take!(w.decstr, format!("{}!p", csi(r)));
    take!(w.ris, "\x1bc".to_string());
    let _ = k;
    match r.n(5) {
        0 | 1 => control_string(r),
        2 => near_miss(r),
        _ => unimplemented(r),
    }
}

pub fn size(r: &mut Rng, maxc: usize, maxr: usize) -> (usize, usize) {
    let c = match r.n(6) {
        0 => 1,
        1 => 2,
        _ => r.range(1, maxc),
    };
    let rr = match r.n(6) {
        0 => 1,
        1 => 2,
        _ => r.range(1, maxr),
    };
    (c, rr)
}

pub fn limit(r: &mut Rng) -> i64 {
    *r.pick(&[-1, -1, -1, 0, 0, 1, 2, 3, 9, 10, 11, 25])
}
