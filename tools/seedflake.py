#!/usr/bin/env python3
"""Seed robustness of detections, inside a `vp run --with-repo` snapshot: every seeded change whose owner check
reported fewer than 20 violations when it was filed (i.e. detections that may hinge on a few random episodes)
is run again with other seeds (VERIF_SEED=2, 3).  A miss is listed for strengthening (a bounded model or a
bounded-exhaustive driver instead of luck).   seedflake.py [seed ...]"""
import glob, json, os, subprocess, sys
root = os.path.dirname(os.path.dirname(os.path.abspath(__file__)))
repo = os.environ.get("VP_RUN_REPO")
assert repo, "needs --with-repo"
ct = os.path.join(root, "harness", "Cargo.toml")
s = open(ct).read().replace('path = "/repo"', 'path = "%s"' % repo)
open(ct, "w").write(s)
subprocess.run("cp /repo/Cargo.lock %s/ 2>/dev/null; cp /repo/Cargo.lock %s/harness/ 2>/dev/null" % (repo, root), shell=True)
seeds = [a for a in sys.argv[1:]] or ["2", "3"]
low = []
for f in sorted(glob.glob(os.path.join(root, "seeded", "*", "meta.json"))):
    d = json.load(open(f))
    n = os.path.basename(os.path.dirname(f))
    o = n.split("-")[0]
    if d.get("checks_run", {}).get(o, {}).get("violations", 0) < 20:
        low.append((n, o))
out = open(os.path.join(root, "seedflake.jsonl"), "w")
for n, o in low:
    subprocess.run(["git", "-C", repo, "checkout", "--", "."])
    if subprocess.run(["git", "-C", repo, "apply", os.path.join(root, "seeded", n, "patch.diff")]).returncode != 0:
        print("cannot apply", n, flush=True)
        continue
    for sd in seeds:
        env = dict(os.environ, VERIF_SEED=sd)
        p = subprocess.run(["./check", o, "--tier", "quick"], cwd=root, env=env, stdout=subprocess.PIPE, stderr=subprocess.STDOUT, text=True)
        nv = sum(1 for l in p.stdout.splitlines() if l.startswith("VIOLATION"))
        rec = {"mutant": n, "check": o, "seed": sd, "exit": p.returncode, "violations": nv}
        out.write(json.dumps(rec) + "\n"); out.flush()
        print(json.dumps(rec), flush=True)
    subprocess.run(["git", "-C", repo, "checkout", "--", "."])
