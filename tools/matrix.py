#!/usr/bin/env python3
"""Cross-matrix of seeded changes x checks, run inside a `vp run --with-repo` snapshot.

For every seeded change, applies it to the snapshot of /repo ($VP_RUN_REPO), runs the owner's
check and a sample of NON-owner checks, and records exit codes: the owner must alarm, and an
alarm of a non-owner is listed for inspection (it must correspond to a real violation of that
other property, otherwise it is a false alarm to be fixed).
"""
import json, os, random, re, subprocess, sys
root = os.path.dirname(os.path.dirname(os.path.abspath(__file__)))
repo = os.environ.get("VP_RUN_REPO")
assert repo, "needs --with-repo"
ct = os.path.join(root, "harness", "Cargo.toml")
s = open(ct).read().replace('path = "/repo"', 'path = "%s"' % repo)
open(ct, "w").write(s)
subprocess.run("cp /repo/Cargo.lock %s/ 2>/dev/null; cp /repo/Cargo.lock %s/harness/ 2>/dev/null" % (repo, root), shell=True)
allc = ["C%02d" % i for i in range(1, 21)]
rng = random.Random(7)
out = open(os.path.join(root, "matrix.jsonl"), "w")
names = sorted(os.listdir(os.path.join(root, "seeded")))
owners_only = "--owners-only" in sys.argv
only = [a for a in sys.argv[1:] if not a.startswith("--")]
for name in names:
    if only and name not in only:
        continue
    d = os.path.join(root, "seeded", name)
    owner = name.split("-")[0]
    others = [c for c in allc if c != owner]
    sample = ["C01", "C02", "C12", "C15"] + rng.sample(others, 4)
    sample = [owner] + ([] if owners_only else [c for c in dict.fromkeys(sample) if c != owner])
    subprocess.run(["git", "-C", repo, "checkout", "--", "."])
    p = subprocess.run(["git", "-C", repo, "apply", os.path.join(d, "patch.diff")])
    if p.returncode != 0:
        print("cannot apply", name, flush=True)
        continue
    for c in sample:
        p = subprocess.run(["./check", c, "--tier", "quick"], cwd=root, stdout=subprocess.PIPE, stderr=subprocess.STDOUT, text=True)
        first = [l.strip() for l in p.stdout.splitlines() if l.startswith("   ")][:1]
        rec = {"mutant": name, "check": c, "exit": p.returncode, "first": first}
        out.write(json.dumps(rec) + "\n"); out.flush()
        print(json.dumps(rec), flush=True)
    subprocess.run(["git", "-C", repo, "checkout", "--", "."])
