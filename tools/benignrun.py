#!/usr/bin/env python3
"""All 20 quick checks against every property-preserving patch under /verif/benign, inside a
`vp run --with-repo` snapshot ($VP_RUN_REPO): every check must exit 0 and print no VIOLATION line.
DRIFT reports (places where the code now differs from the pinned behaviour without touching a
property) are counted, not alarms.   benignrun.py [name ...] [--checks C05,C06]"""
import json, os, re, subprocess, sys
root = os.path.dirname(os.path.dirname(os.path.abspath(__file__)))
repo = os.environ.get("VP_RUN_REPO")
assert repo, "needs --with-repo"
ct = os.path.join(root, "harness", "Cargo.toml")
s = open(ct).read().replace('path = "/repo"', 'path = "%s"' % repo)
open(ct, "w").write(s)
subprocess.run("cp /repo/Cargo.lock %s/ 2>/dev/null; cp /repo/Cargo.lock %s/harness/ 2>/dev/null" % (repo, root), shell=True)
checks = ["C%02d" % i for i in range(1, 21)]
only = []
args = sys.argv[1:]
i = 0
while i < len(args):
    if args[i] == "--checks":
        checks = args[i + 1].split(",")
        i += 2
    else:
        only.append(args[i])
        i += 1
out = open(os.path.join(root, "benign.jsonl"), "w")
bad = 0
for name in sorted(os.listdir(os.path.join(root, "benign"))):
    if only and name not in only:
        continue
    d = os.path.join(root, "benign", name)
    subprocess.run(["git", "-C", repo, "checkout", "--", "."])
    p = subprocess.run(["git", "-C", repo, "apply", os.path.join(d, "patch.diff")])
    if p.returncode != 0:
        print("cannot apply", name, flush=True)
        bad += 1
        continue
    for c in checks:
        p = subprocess.run(["./check", c, "--tier", "quick"], cwd=root, stdout=subprocess.PIPE, stderr=subprocess.STDOUT, text=True)
        first = [l.strip() for l in p.stdout.splitlines() if l.startswith("   ")][:1]
        m = re.search(r"foreign=(\d+)", p.stdout)
        rec = {"patch": name, "check": c, "exit": p.returncode, "foreign": int(m.group(1)) if m else None, "first": first}
        bad += 1 if p.returncode != 0 else 0
        out.write(json.dumps(rec) + "\n"); out.flush()
        print(json.dumps(rec), flush=True)
    subprocess.run(["git", "-C", repo, "checkout", "--", "."])
print("BENIGN", "ALL QUIET" if bad == 0 else "%d ALARMS/ERRORS" % bad)
sys.exit(1 if bad else 0)
