#!/usr/bin/env python3
"""Run every thorough check once on the UNCHANGED tree (inside `vp run --with-repo`); record exit, wall time, foreign alarms."""
import json, os, re, subprocess, sys, time
root = os.path.dirname(os.path.dirname(os.path.abspath(__file__)))
repo = os.environ.get("VP_RUN_REPO")
assert repo, "needs --with-repo"
ct = os.path.join(root, "harness", "Cargo.toml")
txt = open(ct).read().replace('path = "/repo"', 'path = "%s"' % repo)
open(ct, "w").write(txt)
subprocess.run("cp /repo/Cargo.lock %s/ 2>/dev/null; cp /repo/Cargo.lock %s/harness/ 2>/dev/null" % (repo, root), shell=True)
out = open(os.path.join(root, "thorough.jsonl"), "w")
only = sys.argv[1:]
for i in range(1, 21):
    c = "C%02d" % i
    if only and c not in only:
        continue
    t0 = time.time()
    p = subprocess.run(["./check", c, "--tier", "thorough"], cwd=root, stdout=subprocess.PIPE, stderr=subprocess.STDOUT, text=True)
    m = re.search(r"foreign=(\d+)", p.stdout)
    rec = {"check": c, "exit": p.returncode, "wall": round(time.time() - t0), "foreign": int(m.group(1)) if m else -1,
           "tail": p.stdout.strip().splitlines()[-4:]}
    out.write(json.dumps(rec) + "\n"); out.flush()
    print(json.dumps(rec), flush=True)
    subprocess.run("rm -rf %s/work/%s-thorough" % (root, c), shell=True)
