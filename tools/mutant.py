#!/usr/bin/env python3
"""mutant.py <property> <mutant-dir> <name> [--checks C05,C02,...] [--tier quick]

Confirms a seeded change in a scratch worktree (compiles, existing tests pass, the demonstration
passes without and fails with the change), then applies it to /repo, runs the property's check
(and optionally others), restores /repo, and files the change under /verif/seeded/<name>/.
"""
import json
import os
import shutil
import subprocess
import sys

ROOT = os.path.dirname(os.path.dirname(os.path.abspath(__file__)))


def sh(cmd, cwd=None, timeout=1800):
    p = subprocess.run(cmd, shell=True, cwd=cwd, stdout=subprocess.PIPE, stderr=subprocess.STDOUT, text=True, timeout=timeout)
    return p.returncode, p.stdout


def main():
    prop, mdir, name = sys.argv[1], sys.argv[2], sys.argv[3]
    checks = [prop]
    tier = "quick"
    skip_confirm = False
    for i, a in enumerate(sys.argv):
        if a == "--checks":
            checks = sys.argv[i + 1].split(",")
        if a == "--tier":
            tier = sys.argv[i + 1]
        if a == "--skip-confirm":
            skip_confirm = True
    patch = os.path.join(mdir, "patch.diff")
    demo = os.path.join(mdir, "demo.rs")
    meta = json.load(open(os.path.join(mdir, "meta.json")))
    ran = []
    if not skip_confirm:
        wt = "/tmp/mut/confirm-" + name
        sh("git -C /repo worktree remove --force %s" % wt)
        rc, out = sh("git -C /repo worktree add -q --detach %s HEAD && cp /repo/Cargo.lock %s/" % (wt, wt))
        assert rc == 0, out
        try:
            shutil.copy(demo, os.path.join(wt, "tests", "demo.rs"))
            rc, out = sh("cargo test --offline --test demo 2>&1 | tail -5", cwd=wt)
            ok_clean = "test result: ok" in out
            ran.append("clean tree + demo: %s" % ("passes" if ok_clean else "FAILS"))
            os.remove(os.path.join(wt, "tests", "demo.rs"))
            rc, out = sh("git apply %s" % patch, cwd=wt)
            assert rc == 0, "patch does not apply: " + out
            rc, out = sh("cargo test --offline --workspace --no-fail-fast 2>&1 | grep -E '^test result|FAILED|error' ", cwd=wt)
            ok_suite = "FAILED" not in out and "error" not in out and out.count("test result: ok") >= 2
            ran.append("patched tree, existing suite: %s" % ("passes" if ok_suite else "FAILS: " + out[-300:]))
            shutil.copy(demo, os.path.join(wt, "tests", "demo.rs"))
            rc, out = sh("cargo test --offline --test demo 2>&1 | tail -8", cwd=wt)
            demo_fails = "FAILED" in out or "failed" in out
            ran.append("patched tree + demo: %s" % ("fails (as required)" if demo_fails else "PASSES"))
        finally:
            sh("git -C /repo worktree remove --force %s" % wt)
            shutil.rmtree(wt, ignore_errors=True)
        print("\n".join(ran))
        if not (ok_clean and ok_suite and demo_fails):
            print("MUTANT-REJECTED", name)
            return 3
    # run my checks against it
    rc, out = sh("git -C /repo status --short")
    assert out.strip() == "", "/repo is dirty: " + out
    rc, out = sh("git -C /repo apply %s" % patch)
    assert rc == 0, out
    results = {}
    try:
        for c in checks:
            rc, out = sh("./check %s --tier %s" % (c, tier), cwd=ROOT, timeout=3600)
            viol = [l for l in out.splitlines() if l.startswith("VIOLATION")]
            detail = [l.strip() for l in out.splitlines() if l.startswith("   ")][:3]
            results[c] = {"exit": rc, "violations": len(viol), "first": detail[:2]}
            print("check %s: exit=%d violations=%d %s" % (c, rc, len(viol), detail[:1]))
    finally:
        sh("git -C /repo checkout -- .")
    dst = os.path.join(ROOT, "seeded", name)
    os.makedirs(dst, exist_ok=True)
    shutil.copy(patch, os.path.join(dst, "patch.diff"))
    shutil.copy(demo, os.path.join(dst, "demo.rs"))
    meta["breaks_property"] = prop
    if skip_confirm:
        try:      # keep the record of the confirmation done when the change was first filed
            ran = json.load(open(os.path.join(ROOT, "seeded", name, "meta.json"))).get("confirmed", [])
        except Exception:
            pass
    meta["confirmed"] = ran
    meta["checks_run"] = results
    meta["detected_by_owner"] = results.get(prop, {}).get("exit") == 1
    json.dump(meta, open(os.path.join(dst, "meta.json"), "w"), indent=1)
    print("DETECTED" if meta["detected_by_owner"] else "MISSED", name)
    return 0


if __name__ == "__main__":
    sys.exit(main())
