#!/usr/bin/env python3
"""show.py TRACE L [N]: print the episode containing event L (1-based) compactly."""
import sys, json
path, L = sys.argv[1], int(sys.argv[2])
lines = open(path).read().split('\n')
start = L
while start > 1 and json.loads(lines[start-1]).get('ev') != 'ep': start -= 1
def txt(cps): return ''.join(chr(c) for c in cps).encode('unicode_escape').decode()
def screen(t):
    b = t['buf']; out=[]
    for ln in b['lines']:
        out.append(''.join(chr(c[0]) for c in ln['c']) + ('⏎' if ln['w'] else '|'))
    return out
for i in range(start, min(len(lines), L+int(sys.argv[3]) if len(sys.argv)>3 else L)+1):
    if not lines[i-1]: break
    e = json.loads(lines[i-1])
    if e['ev']=='ep' and i>start: break
    d = {k:v for k,v in e.items() if k not in ('st','dr','view')}
    if 's' in d: d['s']=txt(d['s'])
    if 'out' in d and e['ev']=='dump': d['out']=txt(d['out'])
    print(i, json.dumps(d, ensure_ascii=False))
    if 'st' in e:
        t=e['st']['t']
        print('     ', screen(t), 'cur=',(t['col'],t['row']), 'alt' if t['alt'] else 'pri', 'pw' if t['pw'] else '', 'org' if t['origin'] else '', 'mar=',(t['top'],t['bottom']), 'lim',t['lim'], 'saved',(t['saved']['col'],t['saved']['row'],t['saved']['origin']), 'P:',e['st']['p']['state'], 'other:', [''.join(chr(c[0]) for c in ln['c']) for ln in t['other']['lines']], (t['other']['cols'],t['other']['rows']))
