#!/usr/bin/env python3
"""reconfirm.py [--all]: re-establish, in ONE scratch worktree of /repo (outside /repo and /verif, removed at the
end), that each seeded change under /verif/seeded still (a) applies and compiles, (b) passes the existing test
suite, (c) fails its demonstration, and that the demonstration passes on the unchanged tree; records the result in
meta.json ("confirmed").  Without --all only changes whose record is empty are re-confirmed."""
import glob
import json
import os
import shutil
import subprocess
import sys

ROOT = os.path.dirname(os.path.dirname(os.path.abspath(__file__)))
WT = "/tmp/mut/reconfirm"


def sh(cmd, cwd=None, timeout=1800):
    p = subprocess.run(cmd, shell=True, cwd=cwd, stdout=subprocess.PIPE, stderr=subprocess.STDOUT, text=True, timeout=timeout)
    return p.returncode, p.stdout


def main():
    todo = []
    for f in sorted(glob.glob(os.path.join(ROOT, "seeded", "*", "meta.json"))):
        d = json.load(open(f))
        if "--all" in sys.argv or not d.get("confirmed"):
            todo.append(f)
    if not todo:
        print("nothing to do")
        return 0
    sh("git -C /repo worktree remove --force %s" % WT)
    os.makedirs("/tmp/mut", exist_ok=True)
    rc, out = sh("git -C /repo worktree add -q --detach %s HEAD && cp /repo/Cargo.lock %s/" % (WT, WT))
    assert rc == 0, out
    bad = 0
    try:
        for f in todo:
            d = os.path.dirname(f)
            name = os.path.basename(d)
            ran = []
            sh("git checkout -q -- . && rm -f tests/demo.rs", cwd=WT)
            shutil.copy(os.path.join(d, "demo.rs"), os.path.join(WT, "tests", "demo.rs"))
            rc, out = sh("cargo test --offline --test demo 2>&1 | tail -5", cwd=WT)
            ok_clean = "test result: ok" in out
            ran.append("clean tree + demo: %s" % ("passes" if ok_clean else "FAILS"))
            os.remove(os.path.join(WT, "tests", "demo.rs"))
            rc, out = sh("git apply %s" % os.path.join(d, "patch.diff"), cwd=WT)
            if rc != 0:
                ran.append("patch does not apply: " + out[-200:])
                ok_suite = demo_fails = False
            else:
                rc, out = sh("cargo test --offline --workspace --no-fail-fast 2>&1 | grep -E '^test result|FAILED|error' ", cwd=WT)
                ok_suite = "FAILED" not in out and "error" not in out and out.count("test result: ok") >= 2
                ran.append("patched tree, existing suite: %s" % ("passes" if ok_suite else "FAILS: " + out[-300:]))
                shutil.copy(os.path.join(d, "demo.rs"), os.path.join(WT, "tests", "demo.rs"))
                rc, out = sh("cargo test --offline --test demo 2>&1 | tail -8", cwd=WT)
                demo_fails = "FAILED" in out or "failed" in out
                ran.append("patched tree + demo: %s" % ("fails (as required)" if demo_fails else "PASSES"))
            good = ok_clean and ok_suite and demo_fails
            bad += 0 if good else 1
            print(("OK   " if good else "BAD  ") + name, "|", "; ".join(ran), flush=True)
            if good:
                m = json.load(open(f))
                m["confirmed"] = ran
                json.dump(m, open(f, "w"), indent=1)
    finally:
        sh("git -C /repo worktree remove --force %s" % WT)
        shutil.rmtree(WT, ignore_errors=True)
        sh("git -C /repo worktree prune")
    return 1 if bad else 0


if __name__ == "__main__":
    sys.exit(main())
