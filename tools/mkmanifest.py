#!/usr/bin/env python3
"""Regenerate MANIFEST.json from tools/plans.py and the per-property descriptions below."""
import json, os, sys
sys.path.insert(0, os.path.dirname(os.path.abspath(__file__)))
from plans import PLANS
ROOT = os.path.dirname(os.path.dirname(os.path.abspath(__file__)))
DESC = {
 "C01": "Every public call of the recorded sessions (coarse malformed input fed whole and char-wise, resizes between any sizes, dump/text/queries, TextCollector) runs under catch_unwind in a build with overflow checks; a panic event cannot be matched by the trace specification (FAIL C01). Un-validated stress sessions with 65535-count commands run under a 30 s-per-call watchdog. The specification itself uses checked arithmetic, so a completed TLC model run shows no underflow / out-of-range application in the design.",
 "C02": "GeomOK, ChangesOK, PendingWrapOK, view = tail of lines(), public accessors = internal fields, evaluated by TLC on every logged post-call state; bounded models MC_Cursor, MC_Ctx, MC_Alt with every transition replayed on the real code.",
 "C03": "Exhaustive sweep of all 1,112,064 scalar values in 28 parser backgrounds checked by TLC against the specification's transition function; random parser streams compared function-by-function; TokenMeaning (the meaning of a sequence read off its text) on every complete CSI/ESC token; the `clean` observation; bounded model MC_Parser (Memoryless, EscFeIsC1, string states).",
 "C04": "PrintOK / RepOK / CharsetOK (pointwise, public wrap-pending definition) + full-state conformance on one-token episodes incl. the wrap-across-resize scenario; bounded model MC_Print with replay.",
 "C05": "CursorMoveOK / DecomOK / DecstbmOK + conformance on one-token episodes with state-aware cursor placement; bounded model MC_Cursor (all sizes <= 3x3, every margin pair, every parameter class) with replay.",
 "C06": "ScrollFnOK (pointwise shift, blanks in the current pen, scrollback relation) + conformance; bounded model MC_Scroll with replay.",
 "C07": "EditOK (pointwise extents, marks) + conformance; bounded model MC_Edit with replay.",
 "C08": "SgrOK (each attribute decided by the last operation that concerns it) + conformance, pens read through the public accessors; C08X: all 256 indexed colours x both grounds x every encoding; bounded model MC_Sgr with replay.",
 "C09": "TextOK and UnwrapOK against the input lines at three sizes per episode, text() conformance (BufText); bounded model MC_Text (all short texts x widths x heights).",
 "C10": "ResizeTextOK (logical lines and the cursor's logical coordinates computed positionally) + exact conformance of the reflow result; bounded model MC_Reflow with replay.",
 "C11": "The implementation's own dump string is fed to a fresh terminal; conformance of both slots + ObsEq and HiddenEq after the restore, after the rest of a cut sequence and after probes; Dump.tla mirrors dump() (validated against every recorded dump); MC_Dump checks C11 on the specification and its states are dumped/restored/probed on the real code; MC_DumpKnownA/B reproduce the two known findings.",
 "C12": "Three slots (whole / random pieces / char-wise) with ChunkEq and ChunkEqFlushed; bounded model MC_Chunk (every string <= 4 symbols x every subset of cut points).",
 "C13": "Bound on every post-call state (also dropped Changes, feed() runs, same-size resizes); bounded models MC_Limit, MC_Limit11, MC_Scroll.",
 "C14": "NoLoss(drained, limited, unlimited) at the end of lock-step sessions; TextCollector outputs against Unwrap/CollectorFlush and equality across limits and chunkings; bounded models MC_Limit, MC_Limit11, MC_Scroll.",
 "C15": "ChangesSound (cells only) on every feed_str / resize event; bounded models MC_Scroll, MC_Edit with replay.",
 "C16": "Ghost snapshot of the primary at the entering call: parked buffer and text() unchanged during the excursion, primary identical after leaving, entry screen blank in the current pen, ?1049l cursor, LinesPreserved after resizes; bounded model MC_Alt with replay.",
 "C17": "SaveOK / RestoreOK on all spellings, ghost of the most recent save per screen, conformance of both saved contexts; bounded models MC_Misc, MC_Ctx with replay.",
 "C18": "TabEditOK, CursorMoveOK for HT/CHT/CBT, TabsResizeOK, tab conformance after every resize on widths up to 120; bounded models MC_Misc, MC_Tabs with replay.",
 "C19": "FreshEq (whole hooked state) against a fresh slot right after ESC c (from inside every string state too) and after continuations; FreshEq on every RIS transition of MC_Misc.",
 "C20": "A call that produces no function must leave the terminal untouched: random control strings / unimplemented / near-miss tokens whole and char-wise, and C20X: every CSI final x prefix x intermediate x parameter shape; bounded model MC_Parser.",
}
props = [json.loads(l) for l in open(os.path.join(ROOT, "properties.jsonl"))]
checks = []
for p in props:
    pid = p["id"]
    ms = sorted({m["cfg"].replace("_q.cfg", "").replace(".cfg", "") for m in PLANS[pid]["quick"].get("models", [])})
    checks.append({
        "property_id": pid,
        "quick_cmd": "./check %s --tier quick" % pid,
        "thorough_cmd": "./check %s --tier thorough" % pid,
        "evidence_file": "/verif/evidence/%s.json" % pid,
        "replay_cmd_template": "./check %s --replay {path}" % pid,
        "engine": "tla-conformance",
        "level_claimed": {"category": "model_checking", "text": DESC[pid], "design_ref": "DESIGN.md section 5 (%s), sections 3.4, 4.3" % pid},
        "level_note": "Bounded: TLC's verdicts hold for the stated model constants; conformance between the TLA+ specification and the Rust code is established by exploration (validated traces, replayed TLC behaviours, exhaustive parser sweep), not by proof. Trusts TLC 1.8 + CommunityModules, rustc, and that the `verif` feature hook copies the hidden fields faithfully (public observables are read through the public API).",
        "technique": "explicit TLA+ specification; TLC trace validation of recorded implementation behaviours; TLC bounded models (%s)%s" % (", ".join(ms) if ms else "none", " with replay of every transition into the code" if any(m.get("replay") for m in PLANS[pid]["quick"].get("models", [])) else ""),
    })
m = {
 "version": 1,
 "setup_cmd": "cd /verif/harness && CARGO_NET_OFFLINE=true cargo build --release --offline && cd /verif/spec && for m in Base Buffer Parser Terminal Vt Props StepProps ParserRef Williams Dump Encode Trace MC Models MCParser MCChunk MCLimit MCText; do tla-sany $m.tla >/dev/null || exit 1; done",
 "hooks": {"guard": "verif (cargo feature of the avt crate; off by default)",
           "enable": "harness/Cargo.toml depends on avt = { path = \"/repo\", features = [\"verif\"] }; every check rebuilds the harness (cargo build --release --offline) against /repo's working tree",
           "baseline_off_cmd": "cd /repo && cargo test --workspace --no-fail-fast --offline",
           "source_commits": ["de0bd03", "d3c9f5f"], "add_only": True},
 "engines": [{"name": "tla-conformance", "path": "/verif/check", "serves_properties": [p["id"] for p in props],
              "kind_free_text": "Python orchestrator (tools/checklib.py, tools/plans.py): Rust harness (drivers, parser sweep, stress, replay) -> ndjson traces -> TLC trace validation (spec/Trace.tla); TLC bounded models (spec/MC*.tla, MC_*.cfg) whose transitions are replayed on the real code"}],
 "checks": checks,
 "not_applicable": [],
 "notes": "fix: commits in /repo: 66f66d6 (C05 RI/origin), c69572b (C18 Tabs::expand), 4e25776 (C19 cursor-key mode). Known findings: /verif/known_findings.json (C11-a, C11-b). Seeded changes: /verif/seeded (all detected by their owner's quick check; DESIGN.md section 11); property-preserving patches: /verif/benign (no alarms). tools/selftest.py demonstrates the binding."
}
json.dump(m, open(os.path.join(ROOT, "MANIFEST.json"), "w"), indent=1)
print("ok")
