#!/usr/bin/env python3
"""Run every quick check on the UNCHANGED tree with several seeds (inside `vp run --with-repo`): any exit != 0 is a
false alarm or a tool problem to be fixed."""
import json, os, subprocess, sys
root = os.path.dirname(os.path.dirname(os.path.abspath(__file__)))
repo = os.environ.get("VP_RUN_REPO")
assert repo, "needs --with-repo"
ct = os.path.join(root, "harness", "Cargo.toml")
txt = open(ct).read().replace('path = "/repo"', 'path = "%s"' % repo)
open(ct, "w").write(txt)
subprocess.run("cp /repo/Cargo.lock %s/ 2>/dev/null; cp /repo/Cargo.lock %s/harness/ 2>/dev/null" % (repo, root), shell=True)
seeds = [int(x) for x in sys.argv[1:]] or [2, 3, 4, 5]
out = open(os.path.join(root, "seedsweep.jsonl"), "w")
for seed in seeds:
    for i in range(1, 21):
        c = "C%02d" % i
        p = subprocess.run(["./check", c, "--tier", "quick"], cwd=root, env=dict(os.environ, VERIF_SEED=str(seed)), stdout=subprocess.PIPE, stderr=subprocess.STDOUT, text=True)
        import re
        m = re.search(r"foreign=(\d+)", p.stdout)
        foreign = int(m.group(1)) if m else -1
        # on the unchanged tree EVERY predicate of EVERY property must hold on every trace: a foreign alarm is a false alarm too
        rec = {"seed": seed, "check": c, "exit": p.returncode, "foreign": foreign,
               "tail": p.stdout.strip().splitlines()[-3:] if (p.returncode or foreign) else []}
        out.write(json.dumps(rec) + "\n"); out.flush()
        print(json.dumps(rec), flush=True)
