#!/usr/bin/env python3
"""Self-test of the binding: corrupt one recorded field and require TLC to reject exactly that event.

  tools/selftest.py            corruption tests (fast)
  tools/selftest.py --seeded   additionally: every seeded change must make its owner's quick check alarm,
                               every benign patch must leave its checks quiet (slow; applies patches to /repo
                               one at a time and restores it)
"""
import copy, json, os, subprocess, sys
sys.path.insert(0, os.path.dirname(os.path.abspath(__file__)))
import checklib as C

def validate(path):
    rc, out, secs = C.run_tlc(os.path.join(C.SPEC, "Trace.cfg"), os.path.join(C.SPEC, "Trace.tla"), 1, path + ".meta", {"TRACE": path}, 600)
    return C.parse_trace_output(out)

def main():
    C.build()
    wd = os.path.join(C.WORK, "selftest")
    os.makedirs(wd, exist_ok=True)
    base = os.path.join(wd, "base.ndjson")
    subprocess.run([C.HARNESS, "gen", "GEN", "--seed", "11", "--episodes", "30", "--out", base], check=True, stdout=subprocess.PIPE)
    lines = open(base).read().split("\n")
    res = validate(base)
    assert res["accepted"] and not res["fail"] and not res["conf"], "base trace must be clean"
    # pick an fs event in the middle with a non-empty screen
    idx = next(i for i, l in enumerate(lines) if i > 40 and l.startswith('{"ev":"fs"') and '"ch":[]' not in l)
    ok = True
    def corrupt(name, fn, expect):
        nonlocal ok
        e = json.loads(lines[idx])
        fn(e)
        out = lines[:idx] + [json.dumps(e, separators=(",", ":"))] + lines[idx + 1:]
        p = os.path.join(wd, name + ".ndjson")
        open(p, "w").write("\n".join(out))
        r = validate(p)
        hits = [x for x in r["conf"] if x[0] == idx + 1] + [x for x in r["fail"] if x[1] == idx + 1]
        good = bool(hits) if expect else not hits
        print("%-28s event %d: %s %s" % (name, idx + 1, "rejected" if hits else "accepted", "(ok)" if good else "(UNEXPECTED)"))
        ok = ok and good
    def cell(e): e["st"]["t"]["buf"]["lines"][-1]["c"][0][0] = 90
    def cursor(e): e["st"]["t"]["col"] = (e["st"]["t"]["col"] + 1) % max(1, e["st"]["t"]["cols"])
    def mode(e): e["st"]["t"]["origin"] = not e["st"]["t"]["origin"]
    def pen(e): e["st"]["t"]["pen"][3] ^= 8
    def tabs(e): e["st"]["t"]["tabs"] = e["st"]["t"]["tabs"] + [e["st"]["t"]["cols"] + 7]
    def parser(e): e["st"]["p"]["state"] = "CsiEntry"
    def changes(e): e["ch"] = [e["st"]["t"]["rows"]]          # index out of range -> C02
    def trim(e): e["st"]["t"]["buf"]["trim"] = not e["st"]["t"]["buf"]["trim"]   # bookkeeping: must NOT be rejected
    corrupt("flip-one-cell", cell, True)
    corrupt("move-cursor", cursor, True)
    corrupt("flip-origin-mode", mode, True)
    corrupt("flip-pen-blink", pen, True)
    corrupt("extra-tab-stop", tabs, True)
    corrupt("parser-state", parser, True)
    corrupt("changed-line-out-of-range", changes, True)
    corrupt("flip-trim-flag (free)", trim, False)
    if "--seeded" in sys.argv:
        root = C.ROOT
        for name in sorted(os.listdir(os.path.join(root, "seeded"))):
            owner = name.split("-")[0]
            patch = os.path.join(root, "seeded", name, "patch.diff")
            subprocess.run(["git", "-C", "/repo", "apply", patch], check=True)
            try:
                p = subprocess.run(["./check", owner], cwd=root, stdout=subprocess.PIPE, stderr=subprocess.STDOUT, text=True)
            finally:
                subprocess.run(["git", "-C", "/repo", "checkout", "--", "."])
            good = p.returncode == 1
            print("seeded %-10s owner %s exit %d %s" % (name, owner, p.returncode, "(ok)" if good else "(MISSED)"))
            ok = ok and good
    print("SELFTEST", "PASSED" if ok else "FAILED")
    return 0 if ok else 1

if __name__ == "__main__":
    sys.exit(main())
