#!/bin/sh
# time every thorough model configuration (no replay), one after the other
cd "$(dirname "$0")/../spec"
for cfg in MC_*_t.cfg MC_Limit11.cfg; do
  mod=Models.tla
  case $cfg in MC_Parser*) mod=MCParser.tla;; MC_Chunk*) mod=MCChunk.tla;; MC_Limit*) mod=MCLimit.tla;; MC_Text*) mod=MCText.tla;; esac
  sed 's/Emit = TRUE/Emit = FALSE/' $cfg > /tmp/tm_$cfg
  s=$(date +%s)
  JAVA_TOOL_OPTIONS='-Xss1g -Xmx8g -XX:+UseParallelGC' timeout 1500 tlc -workers 12 -metadir ../work/meta-tm-$cfg -cleanup -noGenerateSpecTE -config /tmp/tm_$cfg $mod > ../work/tm_$cfg.out 2>&1
  e=$(date +%s)
  echo "$cfg $((e-s))s $(grep -E 'states generated|Error' ../work/tm_$cfg.out | tail -1)"
done
