"""Orchestration of one property check (see ../check)."""
import fcntl
import hashlib
import json
import os
import re
import shutil
import subprocess
import sys
import time
from concurrent.futures import ThreadPoolExecutor

ROOT = os.path.dirname(os.path.dirname(os.path.abspath(__file__)))
SPEC = os.path.join(ROOT, "spec")
HARNESS_DIR = os.path.join(ROOT, "harness")
HARNESS = os.path.join(HARNESS_DIR, "target", "release", "avt-verif-harness")
WORK = os.path.join(ROOT, "work")
EVID = os.path.join(ROOT, "evidence")
KNOWN = os.path.join(ROOT, "known_findings.json")
TLA_JAR = "/opt/veriftools/tla/tla2tools.jar"

sys.path.insert(0, os.path.dirname(os.path.abspath(__file__)))
from plans import PLANS  # noqa: E402


class ToolError(Exception):
    pass


def log(*a):
    print(*a, flush=True)


# --------------------------------------------------------------------------- build

def build():
    """Rebuild the harness against /repo's current working tree (path dependency, feature `verif`)."""
    os.makedirs(WORK, exist_ok=True)
    with open(os.path.join(WORK, ".build.lock"), "w") as lk:
        fcntl.flock(lk, fcntl.LOCK_EX)
        env = dict(os.environ, CARGO_NET_OFFLINE="true")
        p = subprocess.run(["cargo", "build", "--release", "--offline"], cwd=HARNESS_DIR, env=env,
                           stdout=subprocess.PIPE, stderr=subprocess.STDOUT, text=True, timeout=1500)
        if p.returncode != 0:
            log(p.stdout[-4000:])
            raise ToolError("harness build failed (does /repo still compile?)")


# --------------------------------------------------------------------------- TLC

def tlc_cmd(cfg, module, workers, metadir, extra=()):
    return ["java", "-XX:+UseParallelGC", "-Xss1g", "-Xmx3g",
            "-Dtlc2.tool.queue.IStateQueue=StateDeque" if workers == 1 else "-Dx=y",
            "-cp", TLA_JAR + ":/opt/veriftools/tla/CommunityModules-deps.jar:/opt/veriftools/tla/CommunityModules.jar",
            "tlc2.TLC", "-workers", str(workers), "-metadir", metadir, "-cleanup", "-noGenerateSpecTE",
            *extra, "-config", cfg, module]


def find_tlc():
    """Use the `tlc` wrapper on PATH (it knows the classpath incl. CommunityModules)."""
    return shutil.which("tlc")


def run_tlc(cfg, module, workers, metadir, env_extra, timeout, extra=()):
    env = dict(os.environ)
    env.update(env_extra)
    opts = "-Xss1g -Xmx4g -XX:+UseParallelGC -XX:ParallelGCThreads=2"
    if workers == 1:
        opts += " -Dtlc2.tool.queue.IStateQueue=StateDeque"
    env["JAVA_TOOL_OPTIONS"] = opts
    cmd = [find_tlc(), "-workers", str(workers), "-metadir", metadir, "-cleanup", "-noGenerateSpecTE", *extra,
           "-config", cfg, module]
    t0 = time.time()
    try:
        p = subprocess.run(cmd, cwd=SPEC, env=env, stdout=subprocess.PIPE, stderr=subprocess.STDOUT, text=True,
                           timeout=timeout)
    except subprocess.TimeoutExpired:
        raise ToolError("TLC timed out after %ds on %s" % (timeout, cfg))
    finally:
        shutil.rmtree(metadir, ignore_errors=True)
    return p.returncode, p.stdout, time.time() - t0


MSG = re.compile(r'^"@@ (FAIL|CONF|DRIFT|KNOWN|ACCEPTED|STUCK|COUNTS)\b ?(.*)"$')


def unq(s):
    return s.replace('\\"', '"').replace("\\\\", "\\")


def parse_trace_output(out):
    res = {"fail": [], "conf": [], "drift": [], "known": [], "accepted": None, "stuck": None, "states": 0,
           "error": None, "counts": {}}
    for line in out.splitlines():
        m = MSG.match(line.strip())
        if m:
            kind, rest = m.group(1), unq(m.group(2))
            if kind == "FAIL":
                mm = re.match(r"(C\d+) l=(\d+) ?(.*)", rest)
                res["fail"].append((mm.group(1), int(mm.group(2)), mm.group(3)))
            elif kind == "CONF":
                mm = re.match(r"l=(\d+) what=(\S+) owners=\{([^}]*)\} ?(.*)", rest)
                owners = set(re.findall(r"C\d+", mm.group(3)))
                res["conf"].append((int(mm.group(1)), mm.group(2), owners, mm.group(4)))
            elif kind == "DRIFT":
                mm = re.match(r"l=(\d+) ?(.*)", rest)
                res["drift"].append((int(mm.group(1)), mm.group(2)))
            elif kind == "KNOWN":
                mm = re.match(r"(C\d+) l=(\d+) classes=\{([^}]*)\}", rest)
                res["known"].append((mm.group(1), int(mm.group(2)), set(re.findall(r"C\d+-\w+", mm.group(3)))))
            elif kind == "ACCEPTED":
                res["accepted"] = int(re.search(r"events=(\d+)", rest).group(1))
            elif kind == "STUCK":
                res["stuck"] = rest
            elif kind == "COUNTS":
                try:
                    res["counts"] = json.loads(rest)
                except Exception:
                    pass
            continue
        m = re.match(r"(\d+) states generated, (\d+) distinct states found", line)
        if m:
            res["states"] = int(m.group(2))
        if line.startswith("Error:") and res["error"] is None and "behavior up to this point" not in line:
            res["error"] = line
    return res


# --------------------------------------------------------------------------- traces

_SLICE_CACHE = {}


def episode_slice(trace_path, l):
    """Events of the episode containing event l (1-based), up to and including l."""
    lines = _SLICE_CACHE.get(trace_path)
    if lines is None:
        with open(trace_path) as f:
            lines = f.read().split("\n")
        _SLICE_CACHE.clear()          # one trace at a time: violations are processed trace by trace
        _SLICE_CACHE[trace_path] = lines
    start = l
    while start > 1 and not lines[start - 1].startswith('{"ev":"ep"'):
        start -= 1
    return lines[start - 1:l]


def compact_event(line, maxlen=300):
    try:
        e = json.loads(line)
    except Exception:
        return line[:maxlen]
    d = {k: v for k, v in e.items() if k not in ("st", "dr", "view")}
    if "s" in d and isinstance(d["s"], list):
        d["s"] = "".join(chr(c) for c in d["s"])
    if "out" in d and e.get("ev") == "dump":
        d["out"] = "".join(chr(c) for c in d["out"])
    if "st" in e and isinstance(e["st"], dict) and "t" in e["st"]:
        t = e["st"]["t"]
        d["screen"] = ["".join(chr(c[0]) for c in ln["c"]) + ("+" if ln["w"] else "") for ln in t["buf"]["lines"][-t["rows"]:]]
        d["cursor"] = [t["col"], t["row"]]
    return d


def load_known():
    try:
        with open(KNOWN) as f:
            return json.load(f)
    except FileNotFoundError:
        return {"known": [], "fixed": []}


# --------------------------------------------------------------------------- main

def main(argv):
    if not argv:
        log(__doc__)
        return 2
    pid = argv[0]
    tier = os.environ.get("VERIF_TIER", "quick")
    replay = None
    i = 1
    while i < len(argv):
        if argv[i] == "--tier":
            tier = argv[i + 1]
            i += 2
        elif argv[i] == "--replay":
            replay = argv[i + 1]
            i += 2
        else:
            i += 1
    if tier not in ("quick", "thorough"):
        tier = "quick"
    try:
        seed = int(os.environ.get("VERIF_SEED", "1"))
    except ValueError:
        seed = int(hashlib.sha256(os.environ["VERIF_SEED"].encode()).hexdigest()[:8], 16)
    if pid not in PLANS:
        log("unknown property", pid)
        return 2
    try:
        if replay:
            return do_replay(pid, replay)
        return do_check(pid, tier, seed)
    except ToolError as e:
        log("TOOL-ERROR:", e)
        return 2
    except subprocess.TimeoutExpired as e:
        log("TOOL-ERROR: timeout", e)
        return 2


def classify(pid, res, known):
    """-> (violations [(l, text)], known findings [(l, text)], foreign count)."""
    viol, kn, foreign = [], [], 0
    for (prop, l, text) in res["fail"]:
        if prop == pid:
            viol.append((l, "property predicate failed: " + text))
        else:
            foreign += 1
    for (l, what, owners, text) in res["conf"]:
        if pid in owners:
            viol.append((l, "step is not a step of the specification (%s): %s" % (what, text[:400])))
        else:
            foreign += 1
    listed = {k["class"] for k in known.get("known", []) if k.get("property") == pid}
    for (prop, l, classes) in res["known"]:
        if prop != pid:
            foreign += 1
        elif classes and classes <= listed:
            kn.append((l, ",".join(sorted(classes))))
        else:
            viol.append((l, "dump/restore differs in unlisted class %s" % sorted(classes)))
    return viol, kn, foreign


def do_check(pid, tier, seed):
    t0 = time.time()
    plan = PLANS[pid]
    wd = os.path.join(WORK, "%s-%s" % (pid, tier))
    shutil.rmtree(wd, ignore_errors=True)
    os.makedirs(wd)
    os.makedirs(EVID, exist_ok=True)
    known = load_known()
    log("[%s/%s seed=%d] building harness from /repo working tree" % (pid, tier, seed))
    build()

    tp = plan[tier]
    # ---- 1. drive the implementation, record traces
    jobs = []
    for di, d in enumerate(tp["drivers"]):
        for sh in range(d.get("shards", 1)):
            path = os.path.join(wd, "trace-%d-%s-%d.ndjson" % (di, d["name"], sh))
            if d["name"] == "sweep":
                cmd = [HARNESS, "sweep", "--out", path] + [str(x) for x in d.get("args", [])]
            else:
                cmd = [HARNESS, "gen", d["name"], "--seed", str(seed * 1000 + di * 100 + sh), "--episodes", str(d["episodes"]),
                       "--out", path] + [str(x).replace("{shard}", str(sh)).replace("{seedshard}", str((seed * d.get("shards", 1) + sh) % 16)) for x in d.get("args", [])]
            jobs.append((cmd, path, d["name"]))
    gen_stats = []

    hung = []

    def rungen(job):
        try:
            p = subprocess.run(job[0], stdout=subprocess.PIPE, stderr=subprocess.STDOUT, text=True, timeout=240 if tier == "quick" else 1200)
        except subprocess.TimeoutExpired:
            # the driver did not come back: some call of the code under test does not return (normally the whole
            # generation takes a second).  That is C01's business; for every other property it is a tool problem.
            hung.append(job)
            if pid != "C01":
                raise ToolError("driver did not finish (a call of the code under test hangs?): %s" % " ".join(job[0]))
            return {}
        if p.returncode != 0:
            raise ToolError("driver failed: %s\n%s" % (" ".join(job[0]), p.stdout[-2000:]))
        last = [x for x in p.stdout.strip().splitlines() if x.startswith("{")]
        return json.loads(last[-1]) if last else {}

    with ThreadPoolExecutor(max_workers=16) as ex:
        gen_stats = list(ex.map(rungen, jobs))
    jobs_ok = [j for j in jobs if j not in hung]

    # ---- 1b. un-validated stress (C01): panics and hangs only
    stress = None
    violations = []  # (replay path, text)
    for job in hung:
        violations.append((job[1], "a public call did not return within the driver's time limit (hang); the partial trace ends before the hanging call"))
    jobs = jobs_ok
    if tp.get("stress_secs"):
        sp = os.path.join(wd, "stress.json")
        fp = os.path.join(wd, "fail-stress.ndjson")
        n = tp.get("stress_procs", 8)
        procs = [subprocess.Popen([HARNESS, "stress", "--seed", str(seed * 77 + k), "--secs", str(tp["stress_secs"]),
                                   "--out", sp + str(k), "--fail", fp + str(k)], stdout=subprocess.PIPE, stderr=subprocess.STDOUT, text=True)
                 for k in range(n)]
        stress = {"sessions": 0, "calls": 0, "chars": 0}
        for k, p in enumerate(procs):
            out, _ = p.communicate(timeout=tp["stress_secs"] + 120)
            if p.returncode == 1:
                violations.append((fp + str(k), "stress: " + out.strip().splitlines()[-1]))
            elif p.returncode != 0:
                raise ToolError("stress run failed: " + out[-500:])
            else:
                js = json.loads([x for x in out.splitlines() if x.startswith("{")][-1])
                for key in stress:
                    stress[key] += js[key]

    # ---- 2. trace validation with TLC
    def validate(job):
        _, path, name = job
        meta = path + ".meta"
        rc, out, secs = run_tlc(os.path.join(SPEC, "Trace.cfg"), os.path.join(SPEC, "Trace.tla"), 1, meta,
                                {"TRACE": path}, tp.get("tlc_timeout", 900))
        with open(path + ".tlc.log", "w") as f:
            f.write(out)
        res = parse_trace_output(out)
        if res["accepted"] is None:
            tail = "\n".join(out.splitlines()[-25:])
            raise ToolError("trace validation did not complete for %s (%s)\n%s" % (path, res["stuck"] or res["error"], tail))
        return path, res, secs

    with ThreadPoolExecutor(max_workers=tp.get("tlc_parallel", 8)) as ex:
        results = list(ex.map(validate, jobs))

    known_hits = []
    counts = {}
    foreign = 0
    events = 0
    trace_states = 0
    drift = 0
    nfail = 0

    def run_extra(chunks, drv, label):
        """replay files -> traces (harness) -> TLC trace validation in parallel -> classify"""
        nonlocal events, trace_states, drift, foreign, nfail
        djobs = []
        for rp in chunks:
            tr = rp.replace(".replay.ndjson", ".trace.ndjson")
            subprocess.run([HARNESS, "replay", rp, "--out", tr], stdout=subprocess.PIPE, stderr=subprocess.STDOUT, text=True, timeout=600)
            djobs.append((None, tr, drv))
        jobs.extend(djobs)
        with ThreadPoolExecutor(max_workers=tp.get("tlc_parallel", 8)) as ex:
            dres = list(ex.map(validate, djobs))
        for tr, res3, _ in dres:
            events += res3["accepted"]
            for k_, v_ in res3["counts"].items():
                counts[k_] = counts.get(k_, 0) + v_
            trace_states += res3["states"]
            drift += len(res3["drift"])
            viol3, kn3, fo3 = classify(pid, res3, known)
            foreign += fo3
            for (l, text) in kn3:
                known_hits.append((tr, l, text))
            seen3 = set()
            for (l, text) in sorted(viol3):
                ep = episode_slice(tr, l)
                if ep and ep[0] in seen3:
                    continue
                seen3.add(ep[0])
                nfail += 1
                rpf = os.path.join(wd, "fail-%d.ndjson" % nfail)
                with open(rpf, "w") as f:
                    f.write("\n".join(ep) + "\n")
                    f.write(json.dumps({"ev": "verdict", "property": pid, "event": len(ep), "text": text}) + "\n")
                violations.append((rpf, "%s: %s" % (label, text)))

    for path, res, secs in results:
        events += res["accepted"]
        trace_states += res["states"]
        drift += len(res["drift"])
        for k_, v_ in res["counts"].items():
            counts[k_] = counts.get(k_, 0) + v_
        viol, kn, fo = classify(pid, res, known)
        foreign += fo
        for (l, text) in kn:
            known_hits.append((path, l, text))
        # one replay file per failing episode (first failure of the episode)
        seen_eps = set()
        for (l, text) in sorted(viol):
            ep = episode_slice(path, l)
            key = hashlib.sha1("\n".join(ep[:1] + ep[1:2]).encode()).hexdigest() + str(len(ep) > 0 and ep[0])
            if ep and ep[0] in seen_eps:
                continue
            seen_eps.add(ep[0] if ep else key)
            nfail += 1
            rp = os.path.join(wd, "fail-%d.ndjson" % nfail)
            with open(rp, "w") as f:
                f.write("\n".join(ep) + "\n")
                f.write(json.dumps({"ev": "verdict", "property": pid, "event": len(ep), "text": text}) + "\n")
            violations.append((rp, text))

    # ---- 3. bounded TLC models of the specification
    model_states = 0
    model_trans = 0
    model_runs = []
    for m in tp.get("models", []):
        cfg = os.path.join(SPEC, m["cfg"])
        mod = os.path.join(SPEC, m["module"])
        meta = os.path.join(wd, "meta-" + m["cfg"])
        logp = os.path.join(wd, m["cfg"] + ".log")
        beh = os.path.join(wd, "behaviours-%s.ndjson" % m["cfg"])
        # stream TLC's output: behaviours go to one file, everything else to the log
        env = dict(os.environ)
        env.update(m.get("env", {}))
        env["JAVA_TOOL_OPTIONS"] = "-Xss1g -Xmx8g -XX:+UseParallelGC -XX:ParallelGCThreads=4"
        cmd = [find_tlc(), "-workers", str(m.get("workers", 8)), "-metadir", meta, "-cleanup", "-noGenerateSpecTE", *m.get("extra", ()),
               "-config", cfg, mod]
        t1 = time.time()
        n = 0
        gen = dist = None
        bad = False
        errs = []
        pr = subprocess.Popen(cmd, cwd=SPEC, env=env, stdout=subprocess.PIPE, stderr=subprocess.STDOUT, text=True, bufsize=1 << 20)
        try:
            with open(logp, "w") as lf, open(beh, "w") as bf:
                for ln in pr.stdout:
                    if ln.startswith('"@@ BEHAVIOUR '):
                        bf.write(unq(ln.rstrip("\n")[len('"@@ BEHAVIOUR '):-1]) + "\n")
                        n += 1
                        continue
                    lf.write(ln)
                    mm = re.match(r"(\d+) states generated, (\d+) distinct states found", ln)
                    if mm:
                        gen, dist = int(mm.group(1)), int(mm.group(2))
                    if "Error: Invariant" in ln or "is violated" in ln or "Error: Action property" in ln:
                        bad = True
                    if ln.startswith("Error:"):
                        errs.append(ln.strip())
                    if time.time() - t1 > m.get("timeout", 900):
                        pr.kill()
                        raise ToolError("TLC timed out on %s" % m["cfg"])
            pr.wait(timeout=60)
        finally:
            if pr.poll() is None:
                pr.kill()
            shutil.rmtree(meta, ignore_errors=True)
        secs = time.time() - t1
        if gen is None:
            with open(logp) as lf:
                tail = lf.read().splitlines()[-20:]
            raise ToolError("model %s did not finish:\n%s" % (m["cfg"], "\n".join(tail)))
        model_states += dist
        model_trans += gen
        model_runs.append({"cfg": m["cfg"], "generated": gen, "distinct": dist, "secs": round(secs, 1), "violated": bad})
        if m.get("expect_violation"):
            # a configuration that drops the excuse for a known-finding class: TLC is expected to find the
            # finding on the specification itself (documents that the mirror reproduces it)
            model_runs[-1]["expected_violation"] = m["expect_violation"]
            model_runs[-1]["reproduced_on_specification"] = bad
            if bad:
                log("KNOWN-FINDING: property=%s %s reproduced on the specification by TLC (%s, %d states)" % (pid, m["expect_violation"], m["cfg"], dist))
            continue
        if bad:
            rp = os.path.join(wd, "model-counterexample-%s.txt" % m["cfg"])
            shutil.copy(logp, rp)
            violations.append((rp, "bounded model %s: %s" % (m["cfg"], errs[0] if errs else "invariant violated")))
        elif errs:
            raise ToolError("model %s failed: %s" % (m["cfg"], errs[0]))
        # behaviours emitted by the model for replay into the implementation
        if m.get("replay"):
            fp = os.path.join(wd, "fail-tlcreplay-%s.ndjson" % m["cfg"])
            p = subprocess.run([HARNESS, "tlcreplay", beh, "--fail", fp], stdout=subprocess.PIPE, stderr=subprocess.STDOUT, text=True, timeout=900)
            js = json.loads([x for x in p.stdout.splitlines() if x.startswith("{")][-1])
            model_runs[-1]["replayed_behaviours"] = js["behaviours"]
            model_runs[-1]["replayed_steps"] = js["steps"]
            if p.returncode == 1:
                # judge the failing behaviours like any other recorded behaviour: re-execute them
                # with full logging and let the trace specification attribute the divergence
                import random
                rng = random.Random(seed * 7919 + len(m["cfg"]))
                CONT = ["a", "\b", "\x1b[D", "\x1b[2I", "\x1b[2Z", "\t", "\n", "\x1bM", "\x1b8", "\x1b7", "\x1b[S", "\x1b[T", "\x1b[A", "\x1b[B",
                        "\x1b[C", "\x1b[P", "\x1b[@", "\x1b[X", "\x1b[K", "\x1b[J", "\x1b[L", "\x1b[M", "\x1b[2b", "\x1b[1;1H", "\x1b[999;999H",
                        "\x1b[?6h", "\x1b[?7l", "\x1b[?1047h", "\x1b[?1047l", "\x1b[?1049l", "\x1bE", "\x1b[g", "\x1bH", "\r", "\x1b[r", "\x1b[2;3r",
                        "\x1b[!p", "\x1b[m", "\x1b[7m", "\x1b#8", "ab", "\x1b[4h", "+c", "-c", "+r", "-r", "*c"]

                def write_ep(o, k, b, extra):
                    o.write(json.dumps({"ev": "ep", "id": k, "drv": "tlcreplay"}) + "\n")
                    o.write(json.dumps({"ev": "new", "slot": 1, "cols": b["init"][0], "rows": b["init"][1], "lim": b["init"][2]}) + "\n")
                    cols, rows = b["init"][0], b["init"][1]
                    for op in b["ops"]:
                        if op["k"] == "fs":
                            o.write(json.dumps({"ev": "fs", "slot": 1, "s": op["s"], "consumed": True}) + "\n")
                        else:
                            cols, rows = op["c"], op["r"]
                            o.write(json.dumps({"ev": "rs", "slot": 1, "cols": op["c"], "rows": op["r"], "consumed": True}) + "\n")
                    for x in extra:
                        if x in ("+c", "-c", "+r", "-r", "*c"):
                            cols, rows = {"+c": (cols + 1, rows), "-c": (max(1, cols - 1), rows), "+r": (cols, rows + 1),
                                          "-r": (cols, max(1, rows - 1)), "*c": (cols * 2, rows)}[x]
                            o.write(json.dumps({"ev": "rs", "slot": 1, "cols": cols, "rows": rows, "consumed": True}) + "\n")
                        else:
                            o.write(json.dumps({"ev": "fs", "slot": 1, "s": [ord(ch) for ch in x], "consumed": True}) + "\n")
                    # the read-only operations in the state reached (a panic there is C01's)
                    o.write('{"ev":"dump","slot":1}\n{"ev":"q","slot":1}\n')

                rp = os.path.join(wd, "tlcreplay-%s.replay.ndjson" % m["cfg"])
                def chosen_mismatches():
                    """at most 3000 mismatching behaviours: those on which the implementation PANICKED first (they may come
                    late in TLC's breadth-first order, behind thousands of plain divergences), then the rest in order"""
                    npan = 0
                    with open(fp) as f:
                        for ln in f:
                            if ln.rstrip().endswith('"got":"panic"}'):
                                npan += 1
                                if npan <= 1500:
                                    yield ln
                    rest = 3000 - min(npan, 1500)
                    with open(fp) as f:
                        for ln in f:
                            if rest <= 0:
                                break
                            if not ln.rstrip().endswith('"got":"panic"}'):
                                rest -= 1
                                yield ln
                with open(rp, "w") as o:
                    k = 0
                    conts = 0
                    for idx, ln in enumerate(chosen_mismatches()):
                        b = json.loads(ln)
                        k += 1
                        write_ep(o, k, b, [])
                        # the first divergence may belong to another property; what THIS property says is decided
                        # on continuations from the implementation's own (divergent) state
                        if conts < 6000 and idx < 150:
                            for x in CONT:
                                k += 1
                                conts += 1
                                write_ep(o, k, b, [x])
                            for _ in range(30):
                                k += 1
                                conts += 1
                                write_ep(o, k, b, [rng.choice(CONT), rng.choice(CONT)])
                            for _ in range(15):
                                k += 1
                                conts += 1
                                write_ep(o, k, b, [rng.choice(CONT), rng.choice(CONT), rng.choice(CONT)])
                tr = os.path.join(wd, "tlcreplay-%s.trace.ndjson" % m["cfg"])
                subprocess.run([HARNESS, "replay", rp, "--out", tr], stdout=subprocess.PIPE, stderr=subprocess.STDOUT, text=True, timeout=600)
                rc2, out2, _ = run_tlc(os.path.join(SPEC, "Trace.cfg"), os.path.join(SPEC, "Trace.tla"), 1, tr + ".meta", {"TRACE": tr}, 1800)
                res2 = parse_trace_output(out2)
                if res2["accepted"] is None:
                    raise ToolError("validation of failing behaviours did not complete: %s" % (res2["stuck"] or res2["error"]))
                viol2, kn2, fo2 = classify(pid, res2, known)
                foreign += fo2
                model_runs[-1]["replay_mismatches"] = js["mismatches"]
                seen = set()
                for (l, text) in sorted(viol2):
                    ep = episode_slice(tr, l)
                    if ep and ep[0] in seen:
                        continue
                    seen.add(ep[0])
                    nfail += 1
                    rpf = os.path.join(wd, "fail-%d.ndjson" % nfail)
                    with open(rpf, "w") as f:
                        f.write("\n".join(ep) + "\n")
                        f.write(json.dumps({"ev": "verdict", "property": pid, "event": len(ep), "text": text, "source": "behaviour generated by TLC from " + m["cfg"]}) + "\n")
                    violations.append((rpf, "TLC-generated behaviour: " + text))
            if n == 0:
                raise ToolError("model %s emitted no behaviours" % m["cfg"])
            if m.get("dump_paths"):
                # C11 on the implementation, in the states TLC enumerated: path, dump(), restore into a
                # fresh terminal, probe battery on both - recorded and judged by the trace specification
                probes = ["\x1b[1;1HX", "\n", "\x1b[999;1H\nY", "\x1b[1;999Hab", "\x0eaq\x0fq", "\r\t\tT", "\x1b8P",
                          "\u009b?1047h\x1b8Q", "\u009b?1047lR", "abc", "\r\n", "m", ";5H", "\x1b\\", "p"]
                k = 0
                stride = max(1, n // m["dump_paths"])
                CH = 2500                                  # paths per trace file: validated in parallel
                chunks = []
                o = None
                with open(beh) as f:
                    for idx, ln in enumerate(f):
                        if idx % stride:
                            continue
                        b = json.loads(ln)
                        if k % CH == 0:
                            if o:
                                o.close()
                            chunks.append(os.path.join(wd, "dump-paths-%s-%d.replay.ndjson" % (m["cfg"], len(chunks))))
                            o = open(chunks[-1], "w")
                        k += 1
                        o.write(json.dumps({"ev": "ep", "id": k, "drv": "C11X"}) + "\n")
                        o.write(json.dumps({"ev": "new", "slot": 1, "cols": b["init"][0], "rows": b["init"][1], "lim": b["init"][2]}) + "\n")
                        for op in b["ops"]:
                            if op["k"] == "fs":
                                o.write(json.dumps({"ev": "fs", "slot": 1, "s": op["s"], "consumed": True}) + "\n")
                            else:
                                o.write(json.dumps({"ev": "rs", "slot": 1, "cols": op["c"], "rows": op["r"], "consumed": True}) + "\n")
                        o.write('{"ev":"dump","slot":1}\n{"ev":"newlike","from":1,"lim":%d}\n{"ev":"fsdump","slot":2,"from":1}\n' % b["init"][2])
                        o.write('{"ev":"rel","name":"ObsEq","slots":[1,2]}\n')
                        pr = probes[(k * 3) % len(probes)], probes[(k * 3 + 1) % len(probes)], probes[(k * 3 + 2) % len(probes)]
                        for p_ in pr:
                            for sl in (1, 2):
                                o.write(json.dumps({"ev": "fs", "slot": sl, "s": [ord(ch) for ch in p_], "consumed": True}) + "\n")
                            o.write('{"ev":"rel","name":"ObsEq","slots":[1,2]}\n')
                if o:
                    o.close()
                model_runs[-1]["dump_paths_checked"] = k
                run_extra(chunks, "C11X", "state enumerated by TLC (%s)" % m["cfg"])
            if m.get("batch"):
                # every behaviour again with all calls after the fill concatenated into ONE feed_str call:
                # what a call reports (changed lines, handed-out scrollback) and when it trims must hold
                # for a whole call, however many functions it carries
                CH = 8000
                chunks = []
                o = None
                k = 0
                with open(beh) as f:
                    for ln in f:
                        b = json.loads(ln)
                        ops = b["ops"]
                        if len(ops) < 3 or any(op["k"] != "fs" for op in ops):
                            continue
                        if k % CH == 0:
                            if o:
                                o.close()
                            chunks.append(os.path.join(wd, "batch-%s-%d.replay.ndjson" % (m["cfg"], len(chunks))))
                            o = open(chunks[-1], "w")
                        k += 1
                        o.write(json.dumps({"ev": "ep", "id": k, "drv": "BATCH"}) + "\n")
                        o.write(json.dumps({"ev": "new", "slot": 1, "cols": b["init"][0], "rows": b["init"][1], "lim": b["init"][2]}) + "\n")
                        o.write(json.dumps({"ev": "new", "slot": 2, "cols": b["init"][0], "rows": b["init"][1], "lim": b["init"][2]}) + "\n")
                        o.write(json.dumps({"ev": "fs", "slot": 1, "s": ops[0]["s"], "consumed": True}) + "\n")
                        o.write(json.dumps({"ev": "fs", "slot": 1, "s": [c for op in ops[1:] for c in op["s"]], "consumed": True}) + "\n")
                        # ... and call by call in a second terminal: the two must agree (C12), whatever the specification says
                        for op in ops:
                            o.write(json.dumps({"ev": "fs", "slot": 2, "s": op["s"], "consumed": True}) + "\n")
                        o.write('{"ev":"rel","name":"ChunkEq","slots":[1,2,2]}\n')
                if o:
                    o.close()
                model_runs[-1]["batched_calls_checked"] = k
                run_extra(chunks, "BATCH", "behaviour generated by TLC (%s) fed as one call" % m["cfg"])

    # ---- 3b. vacuity guard: the predicates this property depends on must actually have been evaluated
    for tag, least in plan.get("requires", {}).items():
        if counts.get(tag, 0) < least:
            raise ToolError("vacuous run: %s evaluated %d times (< %d)" % (tag, counts.get(tag, 0), least))

    # ---- 4. verdict + evidence
    for (path, l, text) in known_hits[:1] if False else []:
        pass
    classes_seen = sorted({t for (_, _, t) in known_hits})
    for c in classes_seen:
        n = sum(1 for (_, _, t) in known_hits if t == c)
        desc = "; ".join(k["what"] for k in known.get("known", []) if k["class"] in c.split(","))
        log("KNOWN-FINDING: property=%s %s (%d occurrences in this run) %s" % (pid, c, n, desc))
    for (rp, text) in violations:
        log("VIOLATION property=%s replay=%s" % (pid, rp))
        log("   " + text[:600])

    samples = []
    if jobs:
        with open(jobs[0][1]) as f:
            for k, line in enumerate(f):
                if k >= 8:
                    break
                samples.append(compact_event(line))
    # one behaviour generated by TLC (path + expected state), as replayed on the real code
    for mr in model_runs:
        bp = os.path.join(wd, "behaviours-%s.ndjson" % mr["cfg"])
        if os.path.exists(bp) and os.path.getsize(bp) > 0:
            with open(bp) as f:
                for k, line in enumerate(f):
                    if k == 2000 or (k < 2000 and False):
                        pass
                    last = line
                    if k >= 2000:
                        break
            try:
                b = json.loads(last)
                samples.append({"tlc_behaviour_from": mr["cfg"], "init": b["init"],
                                "ops": [("feed_str " + repr("".join(chr(c) for c in o["s"]))) if o["k"] == "fs" else "resize %dx%d" % (o["c"], o["r"]) for o in b["ops"]],
                                "expected_cursor": [b["st"]["t"]["col"], b["st"]["t"]["row"]]})
            except Exception:
                pass
            break
    # keep only a sample of the (large) behaviour files
    for mr in model_runs:
        bp = os.path.join(wd, "behaviours-%s.ndjson" % mr["cfg"])
        if os.path.exists(bp) and os.path.getsize(bp) > (8 << 20):
            with open(bp) as f:
                head = [next(f, "") for _ in range(500)]
            with open(bp, "w") as f:
                f.writelines(head)
    episodes = sum(g.get("episodes", 0) for g in gen_stats)
    distinct = sum(g.get("distinct_nontrivial", 0) for g in gen_stats)
    ev = {
        "property_id": pid,
        "tier": tier,
        "seed": seed,
        "level": "model_checking",
        "coverage": {
            "states": model_states + trace_states,
            "transitions": model_trans + events,
            "traces_validated_against_impl": episodes,
            "samples": samples,
            "evaluations": events,
            "distinct_nontrivial": distinct,
            "rule": plan.get("rule", ""),
            "exhaustive": bool(tp.get("exhaustive", False)),
            "bounded_models_enumerated_completely": bool(model_runs),
            "model_states_distinct": model_states,
            "model_transitions": model_trans,
            "model_runs": model_runs,
            "trace_events_validated": events,
            "trace_spec_states": trace_states,
            "episodes": episodes,
            "drivers": [dict(g) for g in gen_stats],
            "predicate_evaluations": dict(sorted(counts.items())),
            "drift_events": drift,
            "foreign_alarms": foreign,
            "known_finding_hits": len(known_hits),
            "stress": stress,
        },
        "assumptions": plan.get("assumptions", []) + [
            "TLC 1.8 evaluates the specification and reads the JSON trace correctly",
            "the `verif` feature hook reports the hidden fields it claims to (public observables are read through the public API)",
        ],
        "wall_s": round(time.time() - t0, 1),
        "violations": len(violations),
    }
    with open(os.path.join(EVID, pid + ".json"), "w") as f:
        json.dump(ev, f, indent=1, ensure_ascii=False)
    log("[%s/%s] events=%d episodes=%d model_states=%d violations=%d known=%d foreign=%d wall=%.0fs" % (
        pid, tier, events, episodes, model_states, len(violations), len(known_hits), foreign, time.time() - t0))
    return 1 if violations else 0


def do_replay(pid, path):
    """Re-execute a replay file on the real code and re-validate it."""
    build()
    wd = os.path.join(WORK, "%s-replay" % pid)
    shutil.rmtree(wd, ignore_errors=True)
    os.makedirs(wd)
    out = os.path.join(wd, "trace.ndjson")
    p = subprocess.run([HARNESS, "replay", path, "--out", out], stdout=subprocess.PIPE, stderr=subprocess.STDOUT, text=True, timeout=300)
    log(p.stdout.strip())
    rc, tout, secs = run_tlc(os.path.join(SPEC, "Trace.cfg"), os.path.join(SPEC, "Trace.tla"), 1, os.path.join(wd, "meta"),
                             {"TRACE": out}, 600)
    res = parse_trace_output(tout)
    viol, kn, fo = classify(pid, res, load_known())
    with open(out) as f:
        for k, line in enumerate(f):
            log(k + 1, json.dumps(compact_event(line), ensure_ascii=False))
    for (l, text) in viol:
        log("VIOLATION property=%s replay=%s" % (pid, path))
        log("   event %d: %s" % (l, text))
    for (l, text) in kn:
        log("KNOWN-FINDING: property=%s %s (event %d)" % (pid, text, l))
    return 1 if viol else 0
